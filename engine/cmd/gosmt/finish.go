package main

import (
	"fmt"
	"os"
)

type nativeStats struct {
	Validated     int
	Disagreements int
	Replayed      int
	Confirmed     int
	Unconfirmed   int
	Notes         []string
}

func (r *checkRun) nativeValidate(res *unitResult) {}

func (r *checkRun) finish(partial bool) int {
	rc := 0
	for _, u := range r.units {
		if u.loadErr != nil {
			fmt.Fprintf(os.Stderr, "[%s/%s] LOAD ERROR: %v\n", r.id, u.spec.Name, u.loadErr)
			rc = 2
			continue
		}
		if !r.verbose {
			printReport(os.Stderr, r.id, u)
		}
	}
	return rc
}

func cmdReplay(args []string) int { return 0 }
