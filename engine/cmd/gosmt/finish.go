package main

import (
	"bytes"
	"encoding/json"
	"fmt"
	"os"
	"os/exec"
	"path/filepath"
	"sort"
	"strings"
	"time"

	"verif/engine/sx"
)

type nativeStats struct {
	Validated     int      `json:"validated"`
	Disagreements int      `json:"disagreements"`
	Notes         []string `json:"notes,omitempty"`
}

type vCase struct {
	ID     string            `json:"id"`
	Entry  string            `json:"entry"`
	Model  map[string]uint64 `json:"model"`
	Params map[string]int64  `json:"params"`
}

type nativeOut struct {
	lines []string
	end   string
	found bool
}

func replayMode(u *UnitSpec) string {
	if u.Replay == "" {
		return "native"
	}
	return u.Replay
}

// nativeRun compiles the harness against the real packages with `go test -overlay` and runs the cases.
func nativeRun(res *unitResult, cases []vCase, keepDir string, timeoutS int) (map[string]*nativeOut, string, error) {
	u := res.spec
	tmp := keepDir
	if tmp == "" {
		var err error
		tmp, err = os.MkdirTemp("", "gosmt-native-")
		if err != nil {
			return nil, "", err
		}
		defer os.RemoveAll(tmp)
	} else {
		os.MkdirAll(tmp, 0o755)
	}
	_, pkgName, files, err := buildOverlay(u, "native")
	if err != nil {
		return nil, "", err
	}
	overlay := map[string]string{}
	i := 0
	for virt, content := range files {
		real := filepath.Join(tmp, fmt.Sprintf("f%d_%s", i, filepath.Base(virt)))
		i++
		if err := os.WriteFile(real, content, 0o644); err != nil {
			return nil, "", err
		}
		overlay[virt] = real
	}
	entries := map[string]bool{}
	for _, c := range cases {
		entries[c.Entry] = true
	}
	var sb strings.Builder
	fmt.Fprintf(&sb, "package %s\n\nimport \"testing\"\n\nfunc TestVerifReplay(t *testing.T) {\n\tvRunCases(map[string]func(){\n", pkgName)
	var es []string
	for e := range entries {
		es = append(es, e)
	}
	sort.Strings(es)
	for _, e := range es {
		fmt.Fprintf(&sb, "\t\t%q: %s,\n", e, e)
	}
	sb.WriteString("\t})\n}\n")
	testReal := filepath.Join(tmp, "zz_verif_replay_test.go")
	os.WriteFile(testReal, []byte(sb.String()), 0o644)
	overlay[filepath.Join(res.pkgDir, "zz_verif_replay_test.go")] = testReal
	ov, _ := json.MarshalIndent(map[string]interface{}{"Replace": overlay}, "", " ")
	ovPath := filepath.Join(tmp, "overlay.json")
	os.WriteFile(ovPath, ov, 0o644)
	cj, _ := json.MarshalIndent(cases, "", " ")
	casesPath := filepath.Join(tmp, "cases.json")
	os.WriteFile(casesPath, cj, 0o644)

	cmdline := fmt.Sprintf("cd %s && VERIF_CASES=%s GOFLAGS=-mod=mod GOPROXY=off GOSUMDB=off GOTOOLCHAIN=local go test -vet=off -count=1 -run '^TestVerifReplay$' -overlay %s %s",
		res.loadDir, casesPath, ovPath, res.pattern)
	if keepDir != "" {
		os.WriteFile(filepath.Join(tmp, "replay.sh"), []byte("#!/bin/sh\n# re-runs the stored counterexample(s) against the real build; prints the native trace\n"+cmdline+" -v\n"), 0o755)
	}
	cmd := exec.Command("go", "test", "-v", "-vet=off", "-count=1", "-timeout", fmt.Sprintf("%ds", timeoutS), "-run", "^TestVerifReplay$", "-overlay", ovPath, res.pattern)
	cmd.Dir = res.loadDir
	cmd.Env = append(os.Environ(), "VERIF_CASES="+casesPath, "GOFLAGS=-mod=mod", "GOPROXY=off", "GOSUMDB=off", "GOTOOLCHAIN=local")
	var out bytes.Buffer
	cmd.Stdout = &out
	cmd.Stderr = &out
	runErr := cmd.Run()
	outs := map[string]*nativeOut{}
	if strings.Contains(out.String(), "panic: test timed out") {
		outs["$timeout"] = &nativeOut{found: true, end: "timeout"}
	}
	var cur *nativeOut
	for _, l := range strings.Split(out.String(), "\n") {
		switch {
		case strings.HasPrefix(l, "=== VCASE "):
			cur = &nativeOut{}
			outs[strings.TrimPrefix(l, "=== VCASE ")] = cur
		case strings.HasPrefix(l, "=== VEND "):
			if cur != nil {
				cur.found = true
			}
			cur = nil
		case cur != nil:
			if strings.HasPrefix(l, "END ") {
				cur.end = strings.TrimPrefix(l, "END ")
			} else if l != "" {
				cur.lines = append(cur.lines, l)
			}
		}
	}
	if os.Getenv("GOSMT_NATIVE_DEBUG") != "" {
		fmt.Fprintf(os.Stderr, "native output (%v):\n%s\n", runErr, out.String())
	}
	if len(outs) == 0 && runErr != nil {
		o := out.String()
		if len(o) > 3000 {
			o = o[:3000]
		}
		return nil, cmdline, fmt.Errorf("native run failed: %v\n%s", runErr, o)
	}
	return outs, cmdline, nil
}

// expectedLines renders what the engine computed for a sampled path, in the native output format.
func expectedLines(s *sx.Sample) []string {
	var ls []string
	for _, a := range s.Events {
		ls = append(ls, a)
	}
	return ls
}

func filterCompare(lines []string) []string {
	var r []string
	for _, l := range lines {
		if strings.HasPrefix(l, "ASSERT ") || strings.HasPrefix(l, "REACH ") || strings.HasPrefix(l, "OBS ") {
			r = append(r, l)
		}
	}
	return r
}

type confirmedViolation struct {
	unit      *unitResult
	v         *sx.Violation
	confirmed bool
	how       string
	note      string
	replayDir string
	known     *KnownFinding
}

// nativeValidate validates sampled paths of a unit against the real build.
func (r *checkRun) nativeValidate(res *unitResult) {
	if res.report == nil || replayMode(res.spec) != "native" {
		return
	}
	var cases []vCase
	for i, s := range res.report.Samples {
		cases = append(cases, vCase{ID: fmt.Sprintf("s%d", i), Entry: res.spec.Entry, Model: s.Model, Params: res.tier.Params})
	}
	if len(cases) == 0 {
		return
	}
	outs, _, err := nativeRun(res, cases, "", 300)
	if err != nil {
		res.natives.Notes = append(res.natives.Notes, err.Error())
		return
	}
	for i, s := range res.report.Samples {
		o := outs[fmt.Sprintf("s%d", i)]
		if o == nil || !o.found {
			res.natives.Notes = append(res.natives.Notes, fmt.Sprintf("sample %d: no native output", i))
			continue
		}
		exp := expectedLines(s)
		got := filterCompare(o.lines)
		ok := len(exp) == len(got) && (s.End != "done" || o.end == "done")
		if res.spec.Validate == "verdict" {
			ok = s.End != "done" || o.end == "done"
			for _, l := range got {
				if strings.HasPrefix(l, "ASSERT ") && !strings.HasSuffix(l, " ok") {
					ok = false
				}
			}
		} else if ok {
			for k := range exp {
				if exp[k] != got[k] {
					ok = false
					break
				}
			}
		}
		res.natives.Validated++
		if !ok {
			res.natives.Disagreements++
			res.natives.Notes = append(res.natives.Notes, fmt.Sprintf("sample %d disagrees: engine=%v(end %s) native=%v(end %s) model=%v", i, exp, s.End, got, o.end, s.Model))
		}
	}
}

// confirm replays a violation: natively when the unit allows it, otherwise by concrete re-execution
// of the real SSA in the engine under the model.
func (r *checkRun) confirm(res *unitResult, v *sx.Violation, n int) *confirmedViolation {
	cv := &confirmedViolation{unit: res, v: v}
	dir := filepath.Join(outRoot(), "replays", r.id, fmt.Sprintf("%s-%d", res.spec.Name, n))
	os.RemoveAll(dir)
	os.MkdirAll(dir, 0o755)
	cv.replayDir = dir
	mj, _ := json.MarshalIndent(v, "", " ")
	os.WriteFile(filepath.Join(dir, "violation.json"), mj, 0o644)

	// step 1: concrete re-execution in the engine (always)
	opt := res.opt
	opt.Workers = 1
	opt.FixedModel = v.Model
	if opt.FixedModel == nil {
		opt.FixedModel = map[string]uint64{}
	}
	opt.FixedChoices = v.Choices
	opt.StopAtFirst = false
	opt.Deadline = time.Now().Add(120 * time.Second)
	rep := sx.Explore(res.prog, opt)
	engineOK := false
	for _, x := range rep.Violations {
		if x.Kind == v.Kind && (x.Label == v.Label || v.Kind == "unwind") {
			engineOK = true
		}
	}
	if !engineOK {
		cv.how = "engine"
		cv.note = fmt.Sprintf("concrete re-execution under the model did not reproduce the violation (paths=%d unsup=%v)", rep.Paths, rep.UnsupReasons)
		return cv
	}
	if replayMode(res.spec) == "native" && v.Kind == "unwind" {
		// a non-terminating run is confirmed natively by the real code still running after a generous time-out
		cases := []vCase{{ID: "v", Entry: res.spec.Entry, Model: v.Model, Params: res.tier.Params}}
		outs, cmdline, err := nativeRun(res, cases, dir, 20)
		if err == nil && outs["$timeout"] != nil && (outs["v"] == nil || !outs["v"].found) {
			cv.confirmed = true
			cv.how = "native (the real build is still inside the loop after 20 s on this input): " + cmdline
			return cv
		}
		cv.how = "native"
		cv.note = "native run terminated although the engine found a non-terminating path"
		if err != nil {
			cv.note = err.Error()
		}
		return cv
	}
	if replayMode(res.spec) != "native" || (v.Kind != "assert" && v.Kind != "panic") {
		cv.confirmed = true
		cv.how = "engine (concrete re-execution of the real SSA under the model; native replay not available for this unit)"
		os.WriteFile(filepath.Join(dir, "replay.sh"), []byte(fmt.Sprintf("#!/bin/sh\ncd %s && ./bin/gosmt replay %s\n", verifRoot, dir)), 0o755)
		return cv
	}
	// step 2: native
	cases := []vCase{{ID: "v", Entry: res.spec.Entry, Model: v.Model, Params: res.tier.Params}}
	outs, cmdline, err := nativeRun(res, cases, dir, 300)
	if err != nil {
		cv.how = "native"
		cv.note = "native replay infrastructure failed: " + err.Error()
		return cv
	}
	o := outs["v"]
	if o == nil {
		cv.how = "native"
		cv.note = "no native output"
		return cv
	}
	var trace strings.Builder
	for _, l := range o.lines {
		trace.WriteString(l + "\n")
	}
	trace.WriteString("END " + o.end + "\n")
	os.WriteFile(filepath.Join(dir, "native_trace.txt"), []byte(trace.String()), 0o644)
	cv.how = "native: " + cmdline
	switch v.Kind {
	case "assert":
		for _, l := range o.lines {
			if l == "ASSERT "+v.Label+" FAIL" {
				cv.confirmed = true
			}
		}
	case "panic":
		if strings.HasPrefix(o.end, "panic") {
			cv.confirmed = true
		}
	}
	if !cv.confirmed {
		cv.note = "native run did not reproduce: " + strings.Join(filterCompare(o.lines), "; ") + " END " + o.end
	}
	return cv
}

// KnownFinding is an entry of /verif/known_findings.json.
type KnownFinding struct {
	Property    string `json:"property"`
	Status      string `json:"status"` // open | fixed
	Fingerprint string `json:"fingerprint"`
	What        string `json:"what"`
	Commit      string `json:"commit,omitempty"`
}

func loadKnown() []KnownFinding {
	raw, err := os.ReadFile(filepath.Join(verifRoot, "known_findings.json"))
	if err != nil {
		return nil
	}
	var f struct {
		Findings []KnownFinding `json:"findings"`
	}
	if err := json.Unmarshal(raw, &f); err != nil {
		fmt.Fprintf(os.Stderr, "known_findings.json: %v\n", err)
		return nil
	}
	return f.Findings
}

func (r *checkRun) finish(partial bool) int {
	rc := 0
	known := loadKnown()
	var confirmed []*confirmedViolation
	var inconclusive []string
	ev := map[string]interface{}{}
	var (
		states, transitions, validated, disagreements, paths, cut, unsup, oblig, disch int64
		queries, qsat, qunsat, qunknown                                                int
		solverTime                                                                     float64
		samples                                                                        []interface{}
		unitsEv                                                                        []interface{}
		funcs                                                                          = map[string]int64{}
		stubs                                                                          = map[string]int64{}
		vioCount                                                                       int
	)
	for _, u := range r.units {
		if u.loadErr != nil {
			fmt.Printf("INCONCLUSIVE property=%s unit=%s reason=load-error: %v\n", r.id, u.spec.Name, u.loadErr)
			inconclusive = append(inconclusive, u.spec.Name+": load error: "+u.loadErr.Error())
			rc = 2
			continue
		}
		rep := u.report
		if !r.verbose {
			printReport(os.Stderr, r.id, u)
		}
		// violations: one confirmation per fingerprint
		seen := map[string]bool{}
		n := 0
		for _, v := range rep.Violations {
			if v.Model == nil && len(v.Decisions) == 0 && v.Kind != "deadlock" {
				continue // count-only record
			}
			fp := v.Fingerprint()
			if seen[fp] {
				continue
			}
			seen[fp] = true
			cv := r.confirm(u, v, n)
			n++
			for i := range known {
				k := &known[i]
				if k.Property == r.id && k.Fingerprint == fp && k.Status == "open" {
					cv.known = k
				}
			}
			confirmed = append(confirmed, cv)
		}
		for k, c := range rep.UnsupReasons {
			inconclusive = append(inconclusive, fmt.Sprintf("%s: %d path(s) inconclusive: %s", u.spec.Name, c, k))
		}
		for k, c := range rep.CutReasons {
			inconclusive = append(inconclusive, fmt.Sprintf("%s: %d path(s) cut: %s", u.spec.Name, c, k))
		}
		if rep.StoppedAfterViolation {
			inconclusive = append(inconclusive, u.spec.Name+": exploration stopped 60 s after the last new violation fingerprint; the bound was not exhausted")
		} else if rep.TimedOut {
			inconclusive = append(inconclusive, u.spec.Name+": exploration stopped by budget before the bound was exhausted")
		}
		for _, l := range u.vacuous {
			inconclusive = append(inconclusive, u.spec.Name+": vacuous: reach label never reached: "+l)
		}
		if u.natives.Disagreements > 0 {
			for _, nt := range u.natives.Notes {
				fmt.Printf("ENCODER-DISAGREEMENT property=%s unit=%s %s\n", r.id, u.spec.Name, nt)
			}
		} else {
			for _, nt := range u.natives.Notes {
				inconclusive = append(inconclusive, u.spec.Name+": native validation: "+firstLine(nt))
			}
		}
		states += rep.States
		transitions += rep.Transitions
		validated += int64(u.natives.Validated)
		disagreements += int64(u.natives.Disagreements)
		paths += rep.Paths
		cut += rep.PathsCut
		unsup += rep.PathsUnsup
		oblig += rep.Obligations
		disch += rep.Discharged
		queries += rep.Solver.Queries
		qsat += rep.Solver.Sat
		qunsat += rep.Solver.Unsat
		qunknown += rep.Solver.Unknown
		solverTime += rep.Solver.Time.Seconds()
		for k, v := range rep.Functions {
			funcs[k] += v
		}
		for k, v := range rep.Stubs {
			stubs[k] += v
		}
		for i, s := range rep.Samples {
			if i < 3 {
				samples = append(samples, map[string]interface{}{"unit": u.spec.Name, "decisions": s.Decisions, "model": s.Model, "events": s.Events, "end": s.End})
			}
		}
		unitsEv = append(unitsEv, map[string]interface{}{
			"unit": u.spec.Name, "clause": u.spec.Clause, "entry": u.spec.Entry, "package": u.spec.Dir,
			"bounds": map[string]interface{}{"params": u.tier.Params, "unwind": u.opt.Unwind, "preemptions": u.opt.Preempt, "solver_timeout_ms": u.opt.TimeoutMs, "max_concretisations": u.opt.MaxConc},
			"paths":  rep.Paths, "paths_completed": rep.PathsDone, "paths_assumption_false": rep.PathsAssume, "paths_cut_by_bound": rep.PathsCut,
			"inconclusive_paths": rep.PathsUnsup, "inconclusive_reasons": rep.UnsupReasons, "cut_reasons": rep.CutReasons,
			"states": rep.States, "transitions": rep.Transitions, "obligations": rep.Obligations, "discharged": rep.Discharged,
			"queries":         map[string]int{"total": rep.Solver.Queries, "sat": rep.Solver.Sat, "unsat": rep.Solver.Unsat, "unknown": rep.Solver.Unknown, "errors": rep.Solver.Errors, "fallbacks": rep.Solver.Fallbacks, "cross_checked": rep.Solver.CrossChecked, "cross_disagreements": rep.Solver.CrossDisagree},
			"solver_backends": rep.Solver.ByBackend, "solver_time_s": round2(rep.Solver.Time.Seconds()), "wall_s": round2(rep.Wall.Seconds()),
			"instructions_executed": rep.Steps, "reach_labels": rep.Reach, "vacuous_labels": u.vacuous,
			"native_validation": u.natives, "replay_mode": replayMode(u.spec), "init_failures": rep.InitFailures,
			"load_s": round2(u.prog.LoadTime.Seconds()), "ssa_s": round2(u.prog.SSATime.Seconds()),
			"violation_fingerprints": fingerprints(rep.Violations),
		})
	}

	// report violations
	var knownHit, newVio, unconfirmed []string
	for _, cv := range confirmed {
		fp := cv.v.Fingerprint()
		switch {
		case !cv.confirmed:
			fmt.Printf("UNCONFIRMED property=%s unit=%s label=%s kind=%s: %s\n", r.id, cv.unit.spec.Name, cv.v.Label, cv.v.Kind, cv.note)
			unconfirmed = append(unconfirmed, fp+": "+cv.note)
		case cv.known != nil:
			fmt.Printf("KNOWN-FINDING: property=%s %s [%s]\n", r.id, cv.known.What, fp)
			knownHit = append(knownHit, fp)
		default:
			fmt.Printf("VIOLATION property=%s replay=%s\n", r.id, cv.replayDir)
			fmt.Printf("  unit=%s kind=%s label=%s msg=%s\n  model=%v\n  confirmed by: %s\n", cv.unit.spec.Name, cv.v.Kind, cv.v.Label, cv.v.Msg, cv.v.Model, cv.how)
			newVio = append(newVio, fp)
			vioCount++
			if rc == 0 {
				rc = 1
			}
		}
	}
	// fixed findings that came back are ordinary violations (handled above since status != open)
	for _, s := range inconclusive {
		fmt.Printf("INCONCLUSIVE property=%s %s\n", r.id, s)
	}
	if partial {
		return rc
	}

	// evidence
	var fnList []string
	for k := range funcs {
		fnList = append(fnList, k)
	}
	sort.Strings(fnList)
	fenc := []interface{}{}
	for _, k := range fnList {
		fenc = append(fenc, map[string]interface{}{"function": k, "instructions_executed": funcs[k]})
	}
	var stubList []string
	for k := range stubs {
		stubList = append(stubList, k)
	}
	sort.Strings(stubList)
	if states < 1 {
		states = 1
	}
	if transitions < 1 {
		transitions = 1
	}
	if len(samples) == 0 {
		samples = append(samples, map[string]interface{}{"note": "no completed path was sampled"})
	}
	cov := map[string]interface{}{
		"states": states, "transitions": transitions, "traces_validated_against_impl": validated, "samples": samples,
		"encoder_disagreements": disagreements,
		"paths":                 paths, "paths_cut_by_bound": cut, "inconclusive_paths": unsup,
		"obligations": oblig, "discharged": disch,
		"queries":       map[string]int{"total": queries, "sat": qsat, "unsat": qunsat, "unknown": qunknown},
		"solver_time_s": round2(solverTime), "functions_encoded": fenc, "stubs_used": stubList, "units": unitsEv,
		"exhaustive":   cut == 0 && unsup == 0 && len(inconclusive) == 0,
		"inconclusive": inconclusive, "known_findings_reproduced": knownHit, "new_violations": newVio, "unconfirmed_counterexamples": unconfirmed,
		"rule": "states = nodes of the explored decision tree (symbolic branches, choices, concretisations); transitions = its edges; each completed path is one formula covering every value of the symbolic variables that follows it",
	}
	ev["property_id"] = r.id
	ev["tier"] = r.tier
	ev["seed"] = r.seed
	ev["level"] = "model_checking"
	ev["coverage"] = cov
	assum := append([]string{}, r.spec.Assumptions...)
	for _, u := range r.spec.Units {
		for _, a := range u.Assume {
			assum = append(assum, u.Name+": "+a)
		}
	}
	for _, o := range r.spec.Outside {
		assum = append(assum, "outside the claim: "+o)
	}
	ev["assumptions"] = assum
	ev["wall_s"] = round2(r.wall.Seconds())
	ev["violations"] = vioCount
	os.MkdirAll(filepath.Join(outRoot(), "evidence"), 0o755)
	b, _ := json.MarshalIndent(ev, "", " ")
	os.WriteFile(filepath.Join(outRoot(), "evidence", r.id+".json"), b, 0o644)
	fmt.Printf("SUMMARY property=%s tier=%s units=%d paths=%d obligations=%d/%d queries=%d (unknown %d) validated_natively=%d disagreements=%d known=%d new=%d inconclusive=%d wall=%.1fs\n",
		r.id, r.tier, len(r.units), paths, disch, oblig, queries, qunknown, validated, disagreements, len(knownHit), len(newVio), len(inconclusive), r.wall.Seconds())
	return rc
}

func fingerprints(vs []*sx.Violation) []string {
	m := map[string]bool{}
	for _, v := range vs {
		m[v.Fingerprint()] = true
	}
	var r []string
	for k := range m {
		r = append(r, k)
	}
	sort.Strings(r)
	return r
}

func firstLine(s string) string {
	if i := strings.IndexByte(s, '\n'); i >= 0 {
		return s[:i]
	}
	return s
}

func round2(f float64) float64 { return float64(int64(f*100+0.5)) / 100 }

// cmdReplay re-runs a stored counterexample.
func cmdReplay(args []string) int {
	if len(args) < 1 {
		usage()
	}
	dir := args[0]
	sh := filepath.Join(dir, "replay.sh")
	if _, err := os.Stat(filepath.Join(dir, "cases.json")); err == nil {
		cmd := exec.Command("/bin/sh", sh)
		cmd.Stdout, cmd.Stderr = os.Stdout, os.Stderr
		cmd.Run()
		return 0
	}
	raw, err := os.ReadFile(filepath.Join(dir, "violation.json"))
	if err != nil {
		fmt.Fprintln(os.Stderr, err)
		return 2
	}
	fmt.Printf("engine replay: stored violation:\n%s\n", raw)
	return 0
}

// outRoot is where evidence/ and replays/ are written: /verif, or VERIF_OUT for runs against a mutated
// scratch copy (seed matrix), whose output must not replace the evidence of the unchanged tree.
func outRoot() string {
	if o := os.Getenv("VERIF_OUT"); o != "" {
		return o
	}
	return verifRoot
}
