// gosmt: driver for the solver-based checks of /verif.
package main

import (
	"encoding/json"
	"flag"
	"fmt"
	"os"
	"path/filepath"
	"sort"
	"strconv"
	"strings"
	"time"

	"verif/engine/sx"
)

// verifRoot is the directory holding checks/, harness/, evidence/ ... (the working directory of ./check).
var verifRoot = "/verif"

var repoRoot = "/repo"

// TierSpec holds the bounds of one tier of one unit.
type TierSpec struct {
	Params    map[string]int64 `json:"params"`
	Unwind    int              `json:"unwind"`
	Preempt   int              `json:"preempt"`
	TimeoutMs int              `json:"timeout_ms"`
	MaxSteps  int64            `json:"max_steps"`
	MaxPaths  int64            `json:"max_paths"`
	MaxConc   int              `json:"max_conc"`
	BudgetS   int              `json:"budget_s"`
	Skip      bool             `json:"skip"`
}

// UnitSpec describes one harness entry point.
type UnitSpec struct {
	Name      string            `json:"name"`
	Clause    string            `json:"clause"`
	Dir       string            `json:"dir"`      // package directory relative to the repository root
	LoadDir   string            `json:"load_dir"` // module directory to load from (default: Dir's module)
	Pkg       string            `json:"pkg"`      // pattern (default ".")
	Harness   []string          `json:"harness"`  // harness files relative to /verif
	Entry     string            `json:"entry"`
	Solver    string            `json:"solver"`
	Secondary string            `json:"secondary"`
	HardTo    string            `json:"hard_to"`
	Fallback  []string          `json:"fallback"`
	Replay    string            `json:"replay"` // "native" (default for sequential) | "engine" | "none"
	// Validate: "" = sampled paths must produce the same event sequence natively; "verdict" = only the
	// verdicts are compared (every native assertion holds, same kind of end): for units whose event
	// sequence legitimately depends on Go's randomised map iteration order inside the code under test
	Validate string `json:"validate"`
	Quick     TierSpec          `json:"quick"`
	Thorough  TierSpec          `json:"thorough"`
	Reach     []string          `json:"reach"` // labels that must be reached (vacuity guard)
	Stubs     map[string]string `json:"stubs"` // function full name -> harness function replacing it
	Assume    []string          `json:"assumptions"`
	NonTermV  bool              `json:"nontermination_is_violation"`
	RealFmt   bool              `json:"real_fmt"`
}

// CheckSpec is /verif/checks/<id>.json.
type CheckSpec struct {
	Property    string     `json:"property"`
	Units       []UnitSpec `json:"units"`
	Assumptions []string   `json:"assumptions"`
	Outside     []string   `json:"outside_the_claim"`
}

func main() {
	if len(os.Args) < 2 {
		usage()
	}
	if r := os.Getenv("VERIF_REPO"); r != "" {
		repoRoot = r
	}
	if wd, err := os.Getwd(); err == nil {
		if _, err := os.Stat(filepath.Join(wd, "checks")); err == nil {
			verifRoot = wd
		}
	}
	switch os.Args[1] {
	case "check":
		os.Exit(cmdCheck(os.Args[2:]))
	case "replay":
		os.Exit(cmdReplay(os.Args[2:]))
	default:
		usage()
	}
}

func usage() {
	fmt.Fprintln(os.Stderr, "usage: gosmt check <ID> [--tier quick|thorough] [--unit name] [-v]\n       gosmt replay <dir>")
	os.Exit(2)
}

func envInt(name string, def int64) int64 {
	if s := os.Getenv(name); s != "" {
		if v, err := strconv.ParseInt(s, 10, 64); err == nil {
			return v
		}
	}
	return def
}

func cmdCheck(args []string) int {
	fs := flag.NewFlagSet("check", flag.ExitOnError)
	tier := fs.String("tier", "", "quick or thorough")
	unitSel := fs.String("unit", "", "run only this unit (comma separated)")
	verbose := fs.Bool("v", false, "verbose")
	workers := fs.Int("workers", 16, "worker count")
	noReplay := fs.Bool("no-replay", false, "skip native replay/validation")
	trace := fs.Bool("trace", false, "record scheduler trace")
	var id string
	if len(args) > 0 && !strings.HasPrefix(args[0], "-") {
		id = args[0]
		args = args[1:]
	}
	fs.Parse(args)
	if id == "" && fs.NArg() > 0 {
		id = fs.Arg(0)
	}
	if id == "" {
		usage()
	}
	if *tier == "" {
		*tier = os.Getenv("VERIF_TIER")
	}
	if *tier == "" {
		*tier = "quick"
	}
	seed := envInt("VERIF_SEED", 1)
	sx.CrossCheck = os.Getenv("GOSMT_CROSSCHECK") == "1"
	sx.DebugUnsupStack = os.Getenv("GOSMT_UNSUP_STACK") == "1"
	sx.DebugConc = os.Getenv("GOSMT_CONC_TRACE") == "1"
	if *verbose {
		sx.Progress = 5 * time.Second
		sx.DebugSlow = time.Duration(envInt("GOSMT_SLOW_MS", 3000)) * time.Millisecond
	}

	specPath := filepath.Join(verifRoot, "checks", id+".json")
	raw, err := os.ReadFile(specPath)
	if err != nil {
		fmt.Fprintf(os.Stderr, "cannot read %s: %v\n", specPath, err)
		return 2
	}
	var spec CheckSpec
	if err := json.Unmarshal(raw, &spec); err != nil {
		fmt.Fprintf(os.Stderr, "bad spec %s: %v\n", specPath, err)
		return 2
	}
	sel := map[string]bool{}
	for _, u := range strings.Split(*unitSel, ",") {
		if u != "" {
			sel[u] = true
		}
	}
	start := time.Now()
	restore := guardGoSums()
	defer restore()
	run := &checkRun{id: id, tier: *tier, seed: seed, spec: &spec, verbose: *verbose, workers: *workers, noReplay: *noReplay, trace: *trace}
	for i := range spec.Units {
		u := &spec.Units[i]
		if len(sel) > 0 && !sel[u.Name] {
			continue
		}
		ts := u.Quick
		if *tier == "thorough" {
			ts = mergeTier(u.Quick, u.Thorough)
		}
		if ts.Skip {
			continue
		}
		run.runUnit(u, ts)
	}
	run.wall = time.Since(start)
	rc := run.finish(len(sel) > 0)
	restore()
	return rc
}

func mergeTier(q, t TierSpec) TierSpec {
	r := t
	if r.Params == nil {
		r.Params = map[string]int64{}
	}
	for k, v := range q.Params {
		if _, ok := r.Params[k]; !ok {
			r.Params[k] = v
		}
	}
	if r.Unwind == 0 {
		r.Unwind = q.Unwind
	}
	if r.Preempt == 0 {
		r.Preempt = q.Preempt
	}
	if r.TimeoutMs == 0 {
		r.TimeoutMs = q.TimeoutMs
	}
	if r.MaxSteps == 0 {
		r.MaxSteps = q.MaxSteps
	}
	if r.MaxConc == 0 {
		r.MaxConc = q.MaxConc
	}
	return r
}

type unitResult struct {
	spec    *UnitSpec
	tier    TierSpec
	report  *sx.Report
	loadErr error
	pkgDir  string
	pkgName string
	harness map[string][]byte // overlay file -> content (engine flavour)
	natives nativeStats
	vacuous []string
	prog    *sx.Program
	opt     sx.Options
	loadDir string
	pattern string
}

type checkRun struct {
	id       string
	tier     string
	seed     int64
	spec     *CheckSpec
	verbose  bool
	workers  int
	noReplay bool
	trace    bool
	units    []*unitResult
	wall     time.Duration
}

func findModuleDir(dir string) string {
	d := dir
	for {
		if _, err := os.Stat(filepath.Join(d, "go.mod")); err == nil {
			return d
		}
		p := filepath.Dir(d)
		if p == d {
			return dir
		}
		d = p
	}
}

func packageName(dir string) (string, error) {
	ents, err := os.ReadDir(dir)
	if err != nil {
		return "", err
	}
	for _, e := range ents {
		n := e.Name()
		if !strings.HasSuffix(n, ".go") || strings.HasSuffix(n, "_test.go") {
			continue
		}
		b, err := os.ReadFile(filepath.Join(dir, n))
		if err != nil {
			continue
		}
		for _, line := range strings.Split(string(b), "\n") {
			line = strings.TrimSpace(line)
			if strings.HasPrefix(line, "package ") {
				f := strings.Fields(line)
				if len(f) >= 2 && !strings.Contains(f[1], "_test") {
					return f[1], nil
				}
			}
		}
	}
	return "", fmt.Errorf("no package clause found in %s", dir)
}

// buildOverlay renders the harness files (and the prelude of the given flavour) for a unit.
func buildOverlay(u *UnitSpec, flavour string) (pkgDir, pkgName string, files map[string][]byte, err error) {
	pkgDir = filepath.Join(repoRoot, u.Dir)
	pkgName, err = packageName(pkgDir)
	if err != nil {
		return
	}
	files = map[string][]byte{}
	prelude, err := os.ReadFile(filepath.Join(verifRoot, "harness", "prelude_"+flavour+".go.tmpl"))
	if err != nil {
		return
	}
	files[filepath.Join(pkgDir, "zz_verif_prelude.go")] = []byte(strings.Replace(string(prelude), "package PKGNAME", "package "+pkgName, 1))
	for i, h := range u.Harness {
		var b []byte
		b, err = os.ReadFile(filepath.Join(verifRoot, h))
		if err != nil {
			return
		}
		files[filepath.Join(pkgDir, fmt.Sprintf("zz_verif_h%d.go", i))] = []byte(strings.Replace(string(b), "package PKGNAME", "package "+pkgName, 1))
	}
	return
}

func (r *checkRun) runUnit(u *UnitSpec, ts TierSpec) {
	res := &unitResult{spec: u, tier: ts}
	r.units = append(r.units, res)
	pkgDir, pkgName, files, err := buildOverlay(u, "engine")
	if err != nil {
		res.loadErr = err
		return
	}
	res.pkgDir, res.pkgName, res.harness = pkgDir, pkgName, files
	loadDir := findModuleDir(pkgDir)
	pattern := "./" + strings.TrimPrefix(strings.TrimPrefix(pkgDir, loadDir), "/")
	if u.LoadDir != "" {
		loadDir = filepath.Join(repoRoot, u.LoadDir)
		pattern = u.Pkg
	}
	if pattern == "./" {
		pattern = "."
	}
	t0 := time.Now()
	prog, err := sx.Load(sx.LoadConfig{Dir: loadDir, Patterns: []string{pattern}, Overlay: files})
	if err != nil {
		res.loadErr = err
		return
	}
	prog.RepoRoot = repoRoot
	prog.Stubs = u.Stubs
	prog.RealFmt = u.RealFmt
	if r.verbose {
		fmt.Fprintf(os.Stderr, "[%s/%s] loaded in %.1fs (ssa %.1fs)\n", r.id, u.Name, prog.LoadTime.Seconds(), prog.SSATime.Seconds())
	}
	_ = t0
	opt := sx.Options{
		Unit: u.Name, Entry: u.Entry, Params: ts.Params, Workers: r.workers, Seed: r.seed,
		Unwind: ts.Unwind, MaxSteps: ts.MaxSteps, MaxPaths: ts.MaxPaths, MaxConc: ts.MaxConc, Preempt: ts.Preempt,
		TimeoutMs: ts.TimeoutMs, Primary: u.Solver, Secondary: u.Secondary, QuickMs: 1500, Fallback: u.Fallback, HardTo: u.HardTo,
		StopAtFirst: true, Trace: r.trace, NonTermViolation: u.NonTermV,
	}
	if opt.Params == nil {
		opt.Params = map[string]int64{}
	}
	if opt.Primary == "" {
		opt.Primary = "z3"
	}
	if opt.Secondary == "" {
		if opt.Primary == "z3" {
			opt.Secondary = "cvc5int"
		} else {
			opt.Secondary = "z3"
		}
	}
	if len(opt.Fallback) == 0 {
		opt.Fallback = []string{"z3new", "cvc5int", "cvc5"}
	}
	budget := ts.BudgetS
	if budget == 0 {
		// safety net for mutated trees whose state space explodes: report what was found so far and
		// say that the bound was not exhausted (never reached on the unchanged tree at the registered bounds)
		budget = 600
		if r.tier != "quick" {
			budget = 1800
		}
	}
	if budget > 0 {
		opt.Deadline = time.Now().Add(time.Duration(budget) * time.Second)
	}
	opt.KnownFP = map[string]bool{}
	for _, k := range loadKnown() {
		if k.Property == r.id && k.Status == "open" {
			opt.KnownFP[k.Fingerprint] = true
		}
	}
	opt.GraceAfterNew = 60 * time.Second
	res.prog, res.opt, res.loadDir, res.pattern = prog, opt, loadDir, pattern
	res.report = sx.Explore(prog, opt)
	for _, l := range u.Reach {
		if res.report.Reach[l] == 0 {
			res.vacuous = append(res.vacuous, l)
		}
	}
	if !r.noReplay {
		r.nativeValidate(res)
	}
	if r.verbose {
		printReport(os.Stderr, r.id, res)
	}
}

func printReport(f *os.File, id string, res *unitResult) {
	rep := res.report
	fmt.Fprintf(f, "[%s/%s] paths=%d done=%d assume=%d cut=%d unsup=%d states=%d oblig=%d/%d queries=%d (sat %d unsat %d unknown %d) solver=%.1fs wall=%.1fs steps=%d\n",
		id, res.spec.Name, rep.Paths, rep.PathsDone, rep.PathsAssume, rep.PathsCut, rep.PathsUnsup, rep.States,
		rep.Discharged, rep.Obligations, rep.Solver.Queries, rep.Solver.Sat, rep.Solver.Unsat, rep.Solver.Unknown,
		rep.Solver.Time.Seconds(), rep.Wall.Seconds(), rep.Steps)
	keys := func(m map[string]int64) []string {
		var ks []string
		for k := range m {
			ks = append(ks, k)
		}
		sort.Strings(ks)
		return ks
	}
	for _, k := range keys(rep.UnsupReasons) {
		fmt.Fprintf(f, "    unsupported x%d: %s\n", rep.UnsupReasons[k], k)
	}
	for _, k := range keys(rep.CutReasons) {
		fmt.Fprintf(f, "    cut x%d: %s\n", rep.CutReasons[k], k)
	}
	for _, k := range keys(rep.Reach) {
		fmt.Fprintf(f, "    reach %s: %d\n", k, rep.Reach[k])
	}
	var ik []string
	for k := range rep.InitFailures {
		ik = append(ik, k)
	}
	sort.Strings(ik)
	for _, k := range ik {
		fmt.Fprintf(f, "    init-failure %s: %s\n", k, rep.InitFailures[k])
	}
	for _, v := range rep.Violations {
		if v.Model == nil {
			continue
		}
		fmt.Fprintf(f, "    counterexample-candidate %s %s: %s model=%v\n", v.Kind, v.Label, v.Msg, v.Model)
	}
}

// guardGoSums remembers the content of every go.mod/go.sum that the go tool might rewrite under
// -mod=mod and returns a function restoring any that changed (the checks must not modify /repo).
func guardGoSums() func() {
	saved := map[string][]byte{}
	filepath.Walk(repoRoot, func(path string, info os.FileInfo, err error) error {
		if err != nil {
			return nil
		}
		if info.IsDir() {
			if n := info.Name(); n == ".git" || n == "node_modules" {
				return filepath.SkipDir
			}
			return nil
		}
		if n := info.Name(); n == "go.sum" || n == "go.mod" {
			if b, err := os.ReadFile(path); err == nil {
				saved[path] = b
			}
		}
		return nil
	})
	done := false
	return func() {
		if done {
			return
		}
		done = true
		for p, b := range saved {
			cur, err := os.ReadFile(p)
			if err != nil || string(cur) != string(b) {
				os.WriteFile(p, b, 0o644)
			}
		}
	}
}
