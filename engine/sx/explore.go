package sx

import (
	"fmt"
	"math/rand"
	"os"
	"sort"
	"strings"
	"sync"
	"time"
)

// DecKind is the kind of a decision on a path.
type DecKind uint8

const (
	DecBranch   DecKind = iota // symbolic boolean: Pick 1 = true, 0 = false
	DecChoice                  // free choice among N alternatives (harness choice, scheduler, select)
	DecValue                   // concretisation of a symbolic integer: Pick = the value
	DecValueNot                // marker used only as the LAST element of a queued prefix: "a value not in Excl"
)

// Decision is one element of a path's decision vector.
type Decision struct {
	Kind DecKind  `json:"k"`
	Pick uint64   `json:"p"`
	N    int      `json:"n,omitempty"`
	Tag  string   `json:"t,omitempty"`
	Excl []uint64 `json:"x,omitempty"`
}

func (d Decision) String() string {
	switch d.Kind {
	case DecBranch:
		return fmt.Sprintf("B%d", d.Pick)
	case DecChoice:
		return fmt.Sprintf("C%d/%d", d.Pick, d.N)
	case DecValue:
		return fmt.Sprintf("V%d", d.Pick)
	default:
		return fmt.Sprintf("N%v", d.Excl)
	}
}

// pathEnd is the host panic that terminates the current path.
type pathEnd struct {
	kind string // "done", "assume", "cut", "unsupported", "infeasible", "abort"
	why  string
}

// Violation is a counterexample found on a path.
type Violation struct {
	Unit      string            `json:"unit"`
	Kind      string            `json:"kind"` // assert | panic | deadlock | unwind | leak
	Label     string            `json:"label"`
	Msg       string            `json:"msg,omitempty"`
	Site      string            `json:"site,omitempty"`
	Model     map[string]uint64 `json:"model"`
	Decisions []Decision        `json:"decisions"`
	Choices   []uint64          `json:"choices,omitempty"`
	Trace     []string          `json:"trace,omitempty"`
	Observed  []ObsRec          `json:"observed,omitempty"`
}

func (v *Violation) Fingerprint() string { return v.Unit + "|" + v.Kind + "|" + v.Label }

// ObsRec is one vObserve record (for translator validation).
type ObsRec struct {
	Name string `json:"name"`
	Val  string `json:"val"`
}

// Sample is an explored path kept for the evidence file / native validation.
type Sample struct {
	Decisions string            `json:"decisions"`
	Model     map[string]uint64 `json:"model"`
	Choices   []uint64          `json:"choices,omitempty"`
	Events    []string          `json:"events,omitempty"` // ASSERT/REACH/OBS lines evaluated under Model, in native output format
	Reach     []string          `json:"reach,omitempty"`
	End       string            `json:"end"`
}

// AssertRec records the evaluation of one vAssert along a sampled path under the sample's model.
type AssertRec struct {
	Label string `json:"label"`
	Holds bool   `json:"holds"`
}

// Options configures one exploration (one harness entry).
type Options struct {
	Unit      string
	Entry     string
	Params    map[string]int64
	Workers   int
	Seed      int64
	Unwind    int   // max symbolic decisions at the same branch instruction within one frame
	MaxSteps  int64 // instruction budget per path
	MaxPaths  int64 // 0 = unlimited
	MaxConc   int   // max distinct values when concretising one symbolic integer
	Preempt   int   // preemption bound
	TimeoutMs int
	Primary   string
	Secondary string
	QuickMs   int
	Fallback  []string
	HardTo    string
	Deadline  time.Time
	// KnownFP: fingerprints of recorded findings; a violation outside this set starts the grace period
	// GraceAfterNew, after which (with no further new fingerprint) exploration stops and the run is
	// reported as not exhaustive.  Never triggered on a tree without unlisted violations.
	KnownFP          map[string]bool
	GraceAfterNew    time.Duration
	SampleEvery      int
	MaxSamples       int
	StopAtFirst      bool // stop exploring a label after its first violation (per label)
	ExpectPanics     bool
	Trace            bool
	NonTermViolation bool              // instruction-budget / unwinding cuts are violations (termination clauses)
	FixedModel       map[string]uint64 // concrete re-execution: nondet values come from this model
	FixedChoices     []uint64
}

// Report is the merged outcome of an exploration.
type Report struct {
	Unit                  string
	Paths                 int64
	PathsDone             int64
	PathsAssume           int64
	PathsCut              int64
	PathsUnsup            int64
	UnsupReasons          map[string]int64
	CutReasons            map[string]int64
	States                int64 // decision-tree nodes
	Transitions           int64
	Obligations           int64 // vAsserts + implicit checks evaluated
	Discharged            int64 // proved (unsat) or concretely true
	Reach                 map[string]int64
	Violations            []*Violation
	Samples               []*Sample
	Solver                SolverStats
	Functions             map[string]int64 // repo functions executed -> instruction count
	Stubs                 map[string]int64
	Steps                 int64
	TimedOut              bool
	StoppedAfterViolation bool
	InitFailures          map[string]string
	Wall                  time.Duration
	MaxDepth              int
	DistinctModels        int
}

type workItem struct {
	prefix []Decision
}

// Explorer drives workers over the decision tree.
type Explorer struct {
	prog *Program
	opt  Options

	mu        sync.Mutex
	cond      *sync.Cond
	queue     []workItem
	active    int
	stop      bool
	report    *Report
	vioSeen   map[string]int
	lastNewFP time.Time
	rng       *rand.Rand
}

// Progress, when >0, prints exploration progress to stderr at this interval.
var Progress time.Duration

// Explore runs the harness entry exhaustively within the bounds in opt.
func Explore(prog *Program, opt Options) *Report {
	if opt.Workers <= 0 {
		opt.Workers = 8
	}
	if opt.Unwind <= 0 {
		opt.Unwind = 32
	}
	if opt.MaxSteps <= 0 {
		opt.MaxSteps = 20_000_000
	}
	if opt.MaxConc <= 0 {
		opt.MaxConc = 64
	}
	if opt.TimeoutMs <= 0 {
		opt.TimeoutMs = 10000
	}
	if opt.Primary == "" {
		opt.Primary = "z3"
	}
	if opt.MaxSamples <= 0 {
		opt.MaxSamples = 8
	}
	ex := &Explorer{prog: prog, opt: opt, vioSeen: map[string]int{}, rng: rand.New(rand.NewSource(opt.Seed))}
	ex.cond = sync.NewCond(&ex.mu)
	ex.report = &Report{Unit: opt.Unit, Reach: map[string]int64{}, UnsupReasons: map[string]int64{}, CutReasons: map[string]int64{},
		Functions: map[string]int64{}, Stubs: map[string]int64{}, InitFailures: map[string]string{}}
	ex.queue = []workItem{{prefix: nil}}
	start := time.Now()
	var wg sync.WaitGroup
	for i := 0; i < opt.Workers; i++ {
		wg.Add(1)
		go func(id int) {
			defer wg.Done()
			w := newWorker(prog, ex, id)
			for {
				item, ok := ex.next()
				if !ok {
					break
				}
				w.runPath(item.prefix)
				ex.donePath()
			}
			w.close()
			ex.merge(w)
		}(i)
	}
	stopProgress := make(chan struct{})
	if Progress > 0 {
		go func() {
			tk := time.NewTicker(Progress)
			defer tk.Stop()
			for {
				select {
				case <-stopProgress:
					return
				case <-tk.C:
					ex.mu.Lock()
					fmt.Fprintf(os.Stderr, "  .. %s: paths=%d queue=%d active=%d violations=%d elapsed=%.0fs\n", opt.Unit, ex.report.Paths, len(ex.queue), ex.active, len(ex.report.Violations), time.Since(start).Seconds())
					ex.mu.Unlock()
				}
			}
		}()
	}
	wg.Wait()
	close(stopProgress)
	ex.report.Wall = time.Since(start)
	sort.Slice(ex.report.Violations, func(i, j int) bool {
		return ex.report.Violations[i].Fingerprint() < ex.report.Violations[j].Fingerprint()
	})
	return ex.report
}

func (ex *Explorer) next() (workItem, bool) {
	ex.mu.Lock()
	defer ex.mu.Unlock()
	for {
		if ex.stop {
			return workItem{}, false
		}
		if !ex.opt.Deadline.IsZero() && time.Now().After(ex.opt.Deadline) {
			ex.report.TimedOut = true
			ex.stop = true
			ex.cond.Broadcast()
			return workItem{}, false
		}
		if ex.opt.GraceAfterNew > 0 && !ex.lastNewFP.IsZero() && time.Since(ex.lastNewFP) > ex.opt.GraceAfterNew {
			ex.report.TimedOut = true
			ex.report.StoppedAfterViolation = true
			ex.stop = true
			ex.cond.Broadcast()
			return workItem{}, false
		}
		if ex.opt.MaxPaths > 0 && ex.report.Paths >= ex.opt.MaxPaths {
			ex.report.TimedOut = true
			ex.stop = true
			ex.cond.Broadcast()
			return workItem{}, false
		}
		if n := len(ex.queue); n > 0 {
			// depth-first: take the most recently queued prefix
			it := ex.queue[n-1]
			ex.queue = ex.queue[:n-1]
			ex.active++
			ex.report.Paths++
			return it, true
		}
		if ex.active == 0 {
			ex.stop = true
			ex.cond.Broadcast()
			return workItem{}, false
		}
		ex.cond.Wait()
	}
}

// stopNow reports whether the exploration has been stopped or one of its limits (deadline, grace
// period after the last new violation) has been reached; workers consult it before solver queries so
// that a path with many slow queries does not keep the run alive.
func (ex *Explorer) stopNow() bool {
	ex.mu.Lock()
	defer ex.mu.Unlock()
	if ex.stop {
		return true
	}
	if !ex.opt.Deadline.IsZero() && time.Now().After(ex.opt.Deadline) {
		ex.report.TimedOut = true
		ex.stop = true
	} else if ex.opt.GraceAfterNew > 0 && !ex.lastNewFP.IsZero() && time.Since(ex.lastNewFP) > ex.opt.GraceAfterNew {
		ex.report.TimedOut = true
		ex.report.StoppedAfterViolation = true
		ex.stop = true
	}
	if ex.stop {
		ex.cond.Broadcast()
	}
	return ex.stop
}

func (ex *Explorer) donePath() {
	ex.mu.Lock()
	ex.active--
	if ex.active == 0 && len(ex.queue) == 0 {
		ex.cond.Broadcast()
	}
	ex.mu.Unlock()
}

func (ex *Explorer) push(prefix []Decision) {
	cp := make([]Decision, len(prefix))
	copy(cp, prefix)
	ex.mu.Lock()
	ex.queue = append(ex.queue, workItem{prefix: cp})
	ex.report.Transitions++
	ex.mu.Unlock()
	ex.cond.Signal()
}

func (ex *Explorer) addViolation(v *Violation) {
	ex.mu.Lock()
	defer ex.mu.Unlock()
	fp := v.Fingerprint()
	if ex.vioSeen[fp] == 0 && !ex.opt.KnownFP[fp] {
		ex.lastNewFP = time.Now()
	}
	ex.vioSeen[fp]++
	if ex.vioSeen[fp] <= 3 {
		ex.report.Violations = append(ex.report.Violations, v)
	}
}

func (ex *Explorer) violationSeen(unit, kind, label string) bool {
	ex.mu.Lock()
	defer ex.mu.Unlock()
	return ex.vioSeen[unit+"|"+kind+"|"+label] > 0
}

func (ex *Explorer) addSample(s *Sample) {
	ex.mu.Lock()
	defer ex.mu.Unlock()
	if len(ex.report.Samples) < ex.opt.MaxSamples {
		ex.report.Samples = append(ex.report.Samples, s)
	}
}

func (ex *Explorer) merge(w *Worker) {
	ex.mu.Lock()
	defer ex.mu.Unlock()
	r := ex.report
	r.PathsDone += w.st.pathsDone
	r.PathsAssume += w.st.pathsAssume
	r.PathsCut += w.st.pathsCut
	r.PathsUnsup += w.st.pathsUnsup
	r.States += w.st.states
	r.Transitions += w.st.transitions
	r.Obligations += w.st.obligations
	r.Discharged += w.st.discharged
	r.Steps += w.st.steps
	if w.st.maxDepth > r.MaxDepth {
		r.MaxDepth = w.st.maxDepth
	}
	for k, v := range w.st.reach {
		r.Reach[k] += v
	}
	for k, v := range w.st.unsup {
		r.UnsupReasons[k] += v
	}
	for k, v := range w.st.cut {
		r.CutReasons[k] += v
	}
	for k, v := range w.st.funcs {
		r.Functions[k] += v
	}
	for k, v := range w.st.stubs {
		r.Stubs[k] += v
	}
	for k, v := range w.initFail {
		r.InitFailures[k] = v
	}
	r.Solver.add(&w.solver.Stats)
}

type workerStats struct {
	pathsDone, pathsAssume, pathsCut, pathsUnsup int64
	states, transitions                          int64
	obligations, discharged                      int64
	steps                                        int64
	maxDepth                                     int
	reach                                        map[string]int64
	unsup                                        map[string]int64
	cut                                          map[string]int64
	funcs                                        map[string]int64
	stubs                                        map[string]int64
}

// ---------------------------------------------------------------------------------------------
// decisions (called from the interpreter while running a path)

// nextDecision returns the recorded decision if the path is still inside its prefix.
func (w *Worker) inPrefix() bool { return w.dpos < len(w.prefix) }

// decide resolves a symbolic boolean; returns its value on this path.
func (w *Worker) decide(c value, tag string) bool {
	switch c := c.(type) {
	case bool:
		return c
	case *Term:
		if c.IsConst() {
			return c.IsTrue()
		}
		return w.decideTerm(c, tag)
	}
	panic(unsupported{fmt.Sprintf("decide on %T", c)})
}

func (w *Worker) decideTerm(c *Term, tag string) bool {
	w.st.states++
	if w.inPrefix() {
		d := w.prefix[w.dpos]
		if d.Kind != DecBranch {
			panic(fmt.Sprintf("engine non-determinism: decision %d expected %v, got branch %s", w.dpos, d, tag))
		}
		w.dpos++
		w.decs = append(w.decs, d)
		if d.Pick == 1 {
			w.assertPC(c)
			return true
		}
		w.assertPC(w.tt.Not(c))
		return false
	}
	// beyond the prefix: ask the solver (a cached model of the path condition answers one side for free)
	if w.ex.stopNow() {
		w.endPath("stopped", "exploration stopped")
	}
	nc := w.tt.Not(c)
	vars := w.nondetVars()
	var rt, rf Result
	var mt, mf map[string]uint64
	known := -1
	if w.model != nil {
		if c.Eval(w.model, map[int32]uint64{}) != 0 {
			known = 1
		} else {
			known = 0
		}
	}
	if known == 1 {
		rt, mt = Sat, w.model
	} else {
		rt, mt = w.solver.Check(c, vars)
		if rt == Unknown {
			w.endPath("unsupported", "solver unknown at branch "+tag)
		}
	}
	switch {
	case known == 0:
		rf, mf = Sat, w.model
	case rt == Unsat:
		rf, mf = Sat, w.model // pc is satisfiable, so the other side must be
	default:
		rf, mf = w.solver.Check(nc, vars)
		if rf == Unknown {
			w.endPath("unsupported", "solver unknown at branch "+tag)
		}
	}
	first := uint64(1)
	switch {
	case rt == Sat && rf == Sat:
		if w.ex.opt.Seed&1 == 1 {
			first = 0
		}
		other := first ^ 1
		w.ex.push(append(w.decs[:len(w.decs):len(w.decs)], Decision{Kind: DecBranch, Pick: other, Tag: tag}))
	case rt == Sat:
		first = 1
	case rf == Sat:
		first = 0
	default:
		w.endPath("infeasible", "both sides infeasible at "+tag)
	}
	w.decs = append(w.decs, Decision{Kind: DecBranch, Pick: first, Tag: tag})
	w.dpos++
	w.st.transitions++
	if first == 1 {
		w.model = mt
		w.assertPC(c)
		return true
	}
	w.model = mf
	w.assertPC(nc)
	return false
}

// choose picks one of n alternatives (no solver involved); every alternative is explored.
func (w *Worker) choose(n int, tag string) int {
	if n <= 0 {
		panic("choose: no alternatives")
	}
	if n == 1 {
		return 0
	}
	w.st.states++
	if w.ex.opt.FixedModel != nil {
		k := 0
		if w.fixedPos < len(w.ex.opt.FixedChoices) {
			k = int(w.ex.opt.FixedChoices[w.fixedPos])
		}
		w.fixedPos++
		if k >= n {
			w.endPath("unsupported", "fixed choice out of range (replay diverged)")
		}
		w.choices = append(w.choices, uint64(k))
		return k
	}
	if w.inPrefix() {
		d := w.prefix[w.dpos]
		if d.Kind != DecChoice || d.N != n {
			panic(fmt.Sprintf("engine non-determinism: decision %d expected %v, got choice/%d %s", w.dpos, d, n, tag))
		}
		w.dpos++
		w.decs = append(w.decs, d)
		w.choices = append(w.choices, d.Pick)
		return int(d.Pick)
	}
	for k := n - 1; k >= 1; k-- {
		w.ex.push(append(w.decs[:len(w.decs):len(w.decs)], Decision{Kind: DecChoice, Pick: uint64(k), N: n, Tag: tag}))
	}
	w.decs = append(w.decs, Decision{Kind: DecChoice, Pick: 0, N: n, Tag: tag})
	w.dpos++
	w.st.transitions++
	w.choices = append(w.choices, 0)
	return 0
}

// concretize forks over the feasible values of a symbolic integer term; returns the value on this path.
func (w *Worker) concretize(t *Term, tag string) uint64 {
	if t.IsConst() {
		if t.W == 0 {
			if t.IsTrue() {
				return 1
			}
			return 0
		}
		return t.C
	}
	if v, ok := w.concCache[t.ID]; ok {
		return v // the path condition already pins this term
	}
	w.st.states++
	if DebugConc {
		fn := "?"
		if w.curFn != nil {
			fn = w.curFn.String()
		}
		debugConcOnce(tag + " in " + fn)
	}
	var excl []uint64
	if w.inPrefix() {
		d := w.prefix[w.dpos]
		switch d.Kind {
		case DecValue:
			w.dpos++
			w.decs = append(w.decs, d)
			w.assertPC(w.tt.Eq(t, w.tt.Const(t.W, d.Pick)))
			w.concCache[t.ID] = d.Pick
			return d.Pick
		case DecValueNot:
			if w.dpos != len(w.prefix)-1 {
				panic("engine: DecValueNot not last in prefix")
			}
			excl = d.Excl
		default:
			panic(fmt.Sprintf("engine non-determinism: decision %d expected %v, got concretise %s", w.dpos, d, tag))
		}
	}
	if len(excl) >= w.ex.opt.MaxConc {
		w.endPath("cut", fmt.Sprintf("more than %d values when concretising %s", w.ex.opt.MaxConc, tag))
	}
	// find a value not excluded
	cond := w.tt.True()
	for _, e := range excl {
		cond = w.tt.And(cond, w.tt.Not(w.tt.Eq(t, w.tt.Const(t.W, e))))
	}
	var val uint64
	if w.model != nil && len(excl) == 0 {
		val = t.Eval(w.model, map[int32]uint64{}) & maskB(t.W)
	} else {
		probe := w.valueProbe(t)
		res, model := w.solver.Check(cond, append(w.nondetVars(), probe))
		if res == Unknown {
			w.endPath("unsupported", "solver unknown concretising "+tag)
		}
		if res == Unsat {
			if len(excl) == 0 {
				w.endPath("infeasible", "no value when concretising "+tag)
			}
			w.endPath("exhausted", "")
		}
		val = model[probe.Name] & maskB(t.W)
		w.model = model
	}
	// queue the search for further values — unless the solver shows there is none (saves a whole re-execution)
	nexcl := append(append([]uint64{}, excl...), val)
	more := w.tt.And(cond, w.tt.Not(w.tt.Eq(t, w.tt.Const(t.W, val))))
	if r, _ := w.solver.Check(more, nil); r != Unsat {
		w.ex.push(append(w.decs[:len(w.decs):len(w.decs)], Decision{Kind: DecValueNot, Excl: nexcl, Tag: tag}))
	}
	w.concCache[t.ID] = val
	w.decs = append(w.decs, Decision{Kind: DecValue, Pick: val, Tag: tag})
	w.dpos = len(w.decs)
	if w.dpos < len(w.prefix) {
		w.dpos = len(w.prefix)
	}
	w.st.transitions++
	w.assertPC(w.tt.Eq(t, w.tt.Const(t.W, val)))
	return val
}

// valueProbe returns a variable constrained to equal t, so that get-value can name it.
func (w *Worker) valueProbe(t *Term) *Term {
	if t.Op == OpVar {
		return t
	}
	name := fmt.Sprintf("$probe%d", t.ID)
	v := w.tt.Var(name, t.W)
	if !w.probed[t.ID] {
		w.probed[t.ID] = true
		w.assertPCNoRecord(w.tt.Eq(v, t))
	}
	return v
}

func (w *Worker) assertPC(c *Term) {
	if c.IsTrue() {
		return
	}
	w.pc = append(w.pc, c)
	w.solver.Assert(c)
	w.checkModel(c)
}

func (w *Worker) assertPCNoRecord(c *Term) {
	w.solver.Assert(c)
	w.checkModel(c)
}

// checkModel drops the cached model when it does not satisfy a new constraint.
func (w *Worker) checkModel(c *Term) {
	if w.model != nil && c.Eval(w.model, map[int32]uint64{}) == 0 {
		w.model = nil
	}
}

func (w *Worker) endPath(kind, why string) {
	panic(pathEnd{kind: kind, why: why})
}

// nondetVars returns the variables introduced by harness nondet calls (not probes).
func (w *Worker) nondetVars() []*Term {
	var vs []*Term
	for _, v := range w.tt.vars {
		if !strings.HasPrefix(v.Name, "$") {
			vs = append(vs, v)
		}
	}
	return vs
}

// currentModel asks the solver for a model of the current path condition (plus extra).
func (w *Worker) currentModel(extra *Term) (map[string]uint64, Result) {
	vars := w.nondetVars()
	res, m := w.solver.Check(extra, vars)
	if res != Sat {
		return nil, res
	}
	out := map[string]uint64{}
	for _, v := range vars {
		out[v.Name] = m[v.Name] & maskB(v.W)
	}
	return out, Sat
}

func decString(ds []Decision) string {
	var sb strings.Builder
	for i, d := range ds {
		if i > 0 {
			sb.WriteByte(' ')
		}
		sb.WriteString(d.String())
	}
	return sb.String()
}

// DebugConc prints each distinct (tag, function) at which a symbolic value is concretised (GOSMT_CONC_TRACE=1).
var DebugConc bool
var debugConcSeen sync.Map

func debugConcOnce(k string) {
	if _, dup := debugConcSeen.LoadOrStore(k, true); !dup {
		fmt.Fprintln(os.Stderr, "CONCRETISE", k)
	}
}
