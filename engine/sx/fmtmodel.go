package sx

import (
	"fmt"
	"go/types"
	"strings"
)

// Error-construction model of fmt: the message text is computed for concrete simple operands and
// is a placeholder otherwise; %w operands are wrapped exactly as fmt does, so errors.Is/As/Unwrap
// chains are exact.  (Units that have formatting as their subject run the real fmt code instead:
// parameter real_fmt=1.)

func (w *Worker) renderArg(fr *frame, verb byte, a value) string {
	itf, ok := a.(iface)
	if !ok {
		return "<?>"
	}
	if itf.t == nil {
		return "<nil>"
	}
	if isSymbolic(itf.v) {
		return "<sym>" // never run String()/Error() on a symbolic receiver: it would fork on rendering
	}
	switch v := itf.v.(type) {
	case string:
		if verb == 'q' {
			return fmt.Sprintf("%q", v)
		}
		// named string types with String()/Error() methods are handled below
		if w.findMethod(itf.t, "Error") == nil && w.findMethod(itf.t, "String") == nil {
			return v
		}
	case bool, int, int8, int16, int32, int64, uint, uint8, uint16, uint32, uint64, uintptr, float32, float64:
		if w.findMethod(itf.t, "Error") == nil && w.findMethod(itf.t, "String") == nil {
			return fmt.Sprintf("%"+string(verb), v)
		}
	case *Term, *symStr, *opqStr, floatSym:
		if w.findMethod(itf.t, "Error") == nil && w.findMethod(itf.t, "String") == nil {
			return "<sym>"
		}
	}
	for _, mname := range []string{"Error", "String"} {
		if m := w.findMethod(itf.t, mname); m != nil && m.Signature.Params().Len() == 0 && m.Signature.Results().Len() == 1 {
			if p, isPtr := itf.v.(*value); isPtr && p == nil {
				return "<nil>"
			}
			var out string
			ok := func() (ok bool) {
				defer func() {
					if r := recover(); r != nil {
						switch r.(type) {
						case pathEnd, abortG:
							panic(r)
						}
						ok = false
					}
				}()
				r := w.call(fr, fr.g, m, []value{itf.v})
				switch s := r.(type) {
				case string:
					out = s
					return true
				case *symStr, *opqStr:
					out = "<sym>"
					return true
				}
				return false
			}()
			if ok {
				return out
			}
			return "<" + itf.t.String() + ">"
		}
	}
	return "<" + itf.t.String() + ">"
}

type fmtResult struct {
	s       string
	wrapped []int
}

func (w *Worker) doFormat(fr *frame, format value, args []value) fmtResult {
	f, ok := format.(string)
	if !ok {
		return fmtResult{s: "<sym-format>"}
	}
	var sb strings.Builder
	argi := 0
	var res fmtResult
	for i := 0; i < len(f); i++ {
		c := f[i]
		if c != '%' {
			sb.WriteByte(c)
			continue
		}
		i++
		// flags, width, precision
		for i < len(f) && strings.IndexByte("+-# 0123456789.*[]", f[i]) >= 0 {
			if f[i] == '*' {
				argi++
			}
			i++
		}
		if i >= len(f) {
			sb.WriteString("%!(NOVERB)")
			break
		}
		verb := f[i]
		if verb == '%' {
			sb.WriteByte('%')
			continue
		}
		if argi >= len(args) {
			sb.WriteString("%!" + string(verb) + "(MISSING)")
			continue
		}
		a := args[argi]
		if verb == 'w' {
			if itf, ok := a.(iface); ok && itf.t != nil && w.findMethod(itf.t, "Error") != nil {
				res.wrapped = append(res.wrapped, argi)
			}
			verb = 'v'
		}
		if verb == 'T' {
			if itf, ok := a.(iface); ok && itf.t != nil {
				sb.WriteString(itf.t.String())
			} else {
				sb.WriteString("<nil>")
			}
		} else {
			sb.WriteString(w.renderArg(fr, verb, a))
		}
		argi++
	}
	res.s = sb.String()
	return res
}

func (w *Worker) fmtSprintf(fr *frame, format value, args []value) value {
	return w.doFormat(fr, format, args).s
}

func (w *Worker) fmtSprint(fr *frame, args []value, sep string) value {
	var sb strings.Builder
	for i, a := range args {
		if i > 0 {
			sb.WriteString(sep)
		}
		sb.WriteString(w.renderArg(fr, 'v', a))
	}
	if sep != "" {
		sb.WriteByte('\n')
	}
	return sb.String()
}

func (w *Worker) namedType(pkgPath, name string) types.Type {
	pkg := w.prog.Prog.ImportedPackage(pkgPath)
	if pkg == nil {
		panic(unsupported{"package not in program: " + pkgPath})
	}
	t := pkg.Type(name)
	if t == nil {
		panic(unsupported{"type not found: " + pkgPath + "." + name})
	}
	return t.Object().Type()
}

func (w *Worker) fmtErrorf(fr *frame, format value, args []value) value {
	r := w.doFormat(fr, format, args)
	switch len(r.wrapped) {
	case 0:
		// errors.New(s): &errors.errorString{s}
		t := w.namedType("errors", "errorString")
		cell := value(structure{r.s})
		return iface{t: types.NewPointer(t), v: &cell}
	case 1:
		t := w.namedType("fmt", "wrapError")
		cell := value(structure{r.s, args[r.wrapped[0]]})
		return iface{t: types.NewPointer(t), v: &cell}
	default:
		t := w.namedType("fmt", "wrapErrors")
		errs := make([]value, 0, len(r.wrapped))
		for _, i := range r.wrapped {
			errs = append(errs, args[i])
		}
		cell := value(structure{r.s, errs})
		return iface{t: types.NewPointer(t), v: &cell}
	}
}
