package sx

import (
	"fmt"
	"go/token"
	"go/types"
	"math"
	"math/bits"
	"sort"
	"strings"
	"sync"
	"time"

	"golang.org/x/tools/go/ssa"
)

type interceptFn func(w *Worker, fr *frame, fn *ssa.Function, args []value) value

func fnKey(fn *ssa.Function) string {
	if o := fn.Origin(); o != nil {
		return o.String()
	}
	return fn.String()
}

func lookupIntercept(p *Program, fn *ssa.Function) interceptFn {
	if fn.Parent() != nil {
		return nil
	}
	if fn.Pkg != nil && p.Harness != nil && fn.Pkg == p.Harness {
		if f, ok := harnessIntercepts[fn.Name()]; ok && fn.Signature.Recv() == nil {
			return f
		}
	}
	name := fnKey(fn)
	if h, ok := p.Stubs[name]; ok && p.Harness != nil {
		hf := p.Harness.Func(h)
		if hf == nil {
			panic("harness stub function not found: " + h)
		}
		return func(w *Worker, fr *frame, fn *ssa.Function, args []value) value {
			// the harness function takes the same parameters as the stubbed function when it declares any
			if hf.Signature.Params().Len() == 0 {
				return w.call(fr, fr.g, hf, nil)
			}
			return w.call(fr, fr.g, hf, args)
		}
	}
	if f, ok := stdIntercepts[name]; ok {
		if !(p.RealFmt && strings.HasPrefix(name, "fmt.")) {
			return f
		}
	}
	if fn.Pkg != nil {
		path := fn.Pkg.Pkg.Path()
		if path == "go.uber.org/zap" || path == "go.uber.org/zap/zapcore" {
			return zapStub
		}
	} else if fn.Signature.Recv() != nil {
		// methods of instantiated generics have no Pkg; check receiver's package
		if strings.Contains(name, "go.uber.org/zap") {
			return zapStub
		}
	}
	return nil
}

// zapStub gives every zap function an empty body returning zero values (pointers stay usable:
// a *Logger result is a fresh zero Logger so that chained calls keep working).
func zapStub(w *Worker, fr *frame, fn *ssa.Function, args []value) value {
	res := fn.Signature.Results()
	mk := func(t types.Type) value {
		if pt, ok := t.Underlying().(*types.Pointer); ok {
			v := zero(pt.Elem())
			return &v
		}
		if _, ok := t.Underlying().(*types.Interface); ok {
			return zero(t)
		}
		return zero(t)
	}
	switch res.Len() {
	case 0:
		return nil
	case 1:
		return mk(res.At(0).Type())
	}
	t := make(tuple, res.Len())
	for i := range t {
		t[i] = mk(res.At(i).Type())
	}
	return t
}

func (w *Worker) goString(v value) string {
	switch s := v.(type) {
	case string:
		return s
	case *symStr:
		bs := make([]byte, len(s.b))
		for i, b := range s.b {
			bs[i] = byte(w.concUint(b, "string-byte"))
		}
		return string(bs)
	}
	panic(unsupported{fmt.Sprintf("need a concrete string, have %T", v)})
}

func (w *Worker) freshVar(name string, wd int) *Term {
	k := w.nondetSeq[name]
	w.nondetSeq[name] = k + 1
	full := fmt.Sprintf("%s#%d", name, k)
	if fm := w.ex.opt.FixedModel; fm != nil {
		return w.tt.Const(wd, fm[full])
	}
	return w.tt.Var(full, wd)
}

func nondetInt(wd int) interceptFn {
	return func(w *Worker, fr *frame, fn *ssa.Function, args []value) value {
		return lower(fn.Signature.Results().At(0).Type(), w.freshVar(w.goString(args[0]), wd))
	}
}

var harnessIntercepts map[string]interceptFn

func init() {
	harnessIntercepts = map[string]interceptFn{
		"vNondetInt64":  nondetInt(64),
		"vNondetUint64": nondetInt(64),
		"vNondetInt":    nondetInt(64),
		"vNondetUint":   nondetInt(64),
		"vNondetInt32":  nondetInt(32),
		"vNondetUint32": nondetInt(32),
		"vNondetInt16":  nondetInt(16),
		"vNondetUint16": nondetInt(16),
		"vNondetInt8":   nondetInt(8),
		"vNondetByte":   nondetInt(8),
		"vNondetBool":   nondetInt(0),
		"vNondetBytes": func(w *Worker, fr *frame, fn *ssa.Function, args []value) value {
			name := w.goString(args[0])
			n := int(w.concInt(args[1], "nondet-bytes-len"))
			r := make([]value, n)
			for i := range r {
				r[i] = lower(types.Typ[types.Uint8], w.freshVar(name, 8))
			}
			return r
		},
		"vNondetString": func(w *Worker, fr *frame, fn *ssa.Function, args []value) value {
			name := w.goString(args[0])
			n := int(w.concInt(args[1], "nondet-string-len"))
			if n == 0 {
				return ""
			}
			r := make([]value, n)
			for i := range r {
				r[i] = lower(types.Typ[types.Uint8], w.freshVar(name, 8))
			}
			return normStr(r)
		},
		"vNondetLenString": func(w *Worker, fr *frame, fn *ssa.Function, args []value) value {
			name := w.goString(args[0])
			n := w.freshVar(name, 64)
			max := w.lift(args[1], 64)
			w.assumeTerm(w.tt.And(w.tt.Cmp(OpSLe, w.tt.Const(64, 0), n), w.tt.Cmp(OpSLe, n, max)))
			w.opqSeq++
			return &opqStr{n: lower(types.Typ[types.Int], n), id: w.opqSeq}
		},
		"vNondetFloat64": func(w *Worker, fr *frame, fn *ssa.Function, args []value) value {
			return floatSym{bits: w.freshVar(w.goString(args[0]), 64)}
		},
		"vChoice": func(w *Worker, fr *frame, fn *ssa.Function, args []value) value {
			name := w.goString(args[0])
			n := int(w.concInt(args[1], "choice-n"))
			if n <= 0 {
				w.endPath("assume", "vChoice with no alternatives")
			}
			k := w.choose(n, "choice:"+name)
			// record as a pseudo-variable so that native replay can read it
			if w.ex.opt.FixedModel == nil {
				v := w.freshVar("choice:"+name, 64)
				w.assertPCNoRecord(w.tt.Eq(v, w.tt.Const(64, uint64(k))))
			}
			return k
		},
		"vAssume": func(w *Worker, fr *frame, fn *ssa.Function, args []value) value {
			switch c := args[0].(type) {
			case bool:
				if !c {
					w.endPath("assume", "")
				}
			case *Term:
				w.assumeTerm(c)
			default:
				panic(unsupported{fmt.Sprintf("vAssume(%T)", c)})
			}
			return nil
		},
		"vAssert": func(w *Worker, fr *frame, fn *ssa.Function, args []value) value {
			w.assertCond(args[0], w.goString(args[1]), fr)
			return nil
		},
		"vFail": func(w *Worker, fr *frame, fn *ssa.Function, args []value) value {
			w.assertCond(false, w.goString(args[0]), fr)
			return nil
		},
		"vReach": func(w *Worker, fr *frame, fn *ssa.Function, args []value) value {
			l := w.goString(args[0])
			w.events = append(w.events, pathEvent{kind: "REACH", label: l})
			for _, r := range w.reached {
				if r == l {
					return nil
				}
			}
			w.reached = append(w.reached, l)
			return nil
		},
		"vObserve": func(w *Worker, fr *frame, fn *ssa.Function, args []value) value {
			w.events = append(w.events, pathEvent{kind: "OBS", label: w.goString(args[0]), val: args[1]})
			return nil
		},
		"vParam": func(w *Worker, fr *frame, fn *ssa.Function, args []value) value {
			name := w.goString(args[0])
			v, ok := w.ex.opt.Params[name]
			if !ok {
				panic(fmt.Sprintf("harness parameter %q not set", name))
			}
			return int(v)
		},
		"vLiveGoroutines": func(w *Worker, fr *frame, fn *ssa.Function, args []value) value {
			n := 0
			for _, g := range w.sched.gs {
				if !g.done && g != fr.g {
					n++
				}
			}
			return n
		},
		"vBlockedGoroutines": func(w *Worker, fr *frame, fn *ssa.Function, args []value) value {
			n := 0
			for _, g := range w.sched.gs {
				if !g.done && g != fr.g && g.blocked {
					n++
				}
			}
			return n
		},
		// vYield: a voluntary yield (e.g. a slow backend call): any other goroutine or timer may run
		// first; this does not count against the preemption bound.
		"vYield": func(w *Worker, fr *frame, fn *ssa.Function, args []value) value {
			s := &w.sched
			for {
				others := s.runnable(fr.g)
				timers := s.armedTimers()
				n := 1 + len(others) + len(timers)
				if n == 1 {
					return nil
				}
				k := w.choose(n, "yield")
				if k == 0 {
					return nil
				}
				if k <= len(others) {
					s.switchTo(fr.g, others[k-1])
					return nil
				}
				s.fire(timers[k-1-len(others)])
			}
		},
		// vSettle lets every other goroutine run until all of them are blocked or finished.
		"vSettle": func(w *Worker, fr *frame, fn *ssa.Function, args []value) value {
			s := &w.sched
			for {
				others := s.runnable(fr.g)
				if len(others) == 0 {
					return nil
				}
				k := 0
				if len(others) > 1 {
					k = w.choose(len(others), "settle")
				}
				// cooperative: switching here is not a preemption
				s.switchTo(fr.g, others[k])
			}
		},
		"vExpectPanic": func(w *Worker, fr *frame, fn *ssa.Function, args []value) value {
			w.expectPanic = true
			return nil
		},
		"vIsSymbolic": func(w *Worker, fr *frame, fn *ssa.Function, args []value) value {
			return true
		},
		"vTrace": func(w *Worker, fr *frame, fn *ssa.Function, args []value) value {
			w.trace = append(w.trace, w.goString(args[0]))
			return nil
		},
		"vConcretize": func(w *Worker, fr *frame, fn *ssa.Function, args []value) value {
			switch x := args[0].(type) {
			case *Term:
				return int(sext(w.concretize(x, "vConcretize"), x.W))
			}
			return args[0]
		},
		"vClockCount": func(w *Worker, fr *frame, fn *ssa.Function, args []value) value {
			return len(w.clockReadings)
		},
		"vClockReading": func(w *Worker, fr *frame, fn *ssa.Function, args []value) value {
			k := int(w.concInt(args[0], "clock-index"))
			if k < 0 || k >= len(w.clockReadings) {
				panic(fmt.Sprintf("vClockReading(%d): only %d readings so far", k, len(w.clockReadings)))
			}
			return w.clockReadings[k]
		},
		"vLastTimerDuration": func(w *Worker, fr *frame, fn *ssa.Function, args []value) value {
			if w.lastTimerDur == nil {
				return int64(-1)
			}
			return w.lastTimerDur
		},
		// vFieldInt(x, name): value of the integer field `name` of the struct (or pointed-to struct) held
		// in interface x; ok=false when there is no such field.  (Lets a harness read an unexported
		// field of a value of another package, e.g. the delay of a throttle error.)
		"vFieldInt": func(w *Worker, fr *frame, fn *ssa.Function, args []value) value {
			itf, _ := args[0].(iface)
			name := w.goString(args[1])
			if itf.t == nil {
				return tuple{int64(0), false}
			}
			t := itf.t
			v := itf.v
			if pt, ok := t.Underlying().(*types.Pointer); ok {
				p, _ := v.(*value)
				if p == nil {
					return tuple{int64(0), false}
				}
				t, v = pt.Elem(), *p
			}
			st, ok := t.Underlying().(*types.Struct)
			sv, ok2 := v.(structure)
			if !ok || !ok2 {
				return tuple{int64(0), false}
			}
			for i := 0; i < st.NumFields(); i++ {
				if st.Field(i).Name() == name {
					switch f := sv[i].(type) {
					case *Term:
						if f.W == 64 {
							return tuple{f, true}
						}
						_, signed, _ := intInfo(st.Field(i).Type())
						if signed {
							return tuple{lower(types.Typ[types.Int64], w.tt.SExt(f, 64)), true}
						}
						return tuple{lower(types.Typ[types.Int64], w.tt.ZExt(f, 64)), true}
					default:
						if _, isInt := bitsOf(f); isInt {
							return tuple{asInt64(f), true}
						}
					}
					return tuple{int64(0), false}
				}
			}
			return tuple{int64(0), false}
		},
		"vTimerResets": func(w *Worker, fr *frame, fn *ssa.Function, args []value) value {
			return w.sched.timerResets
		},
		"vTimersCreated": func(w *Worker, fr *frame, fn *ssa.Function, args []value) value {
			return len(w.sched.timers)
		},
	}
}

func obsString(v value) string {
	if itf, ok := v.(iface); ok {
		return toString(itf.v)
	}
	return toString(v)
}

// assumeTerm adds c to the path condition, ending the path when it becomes infeasible.
func (w *Worker) assumeTerm(c *Term) {
	if c.IsTrue() {
		return
	}
	if c.IsFalse() {
		w.endPath("assume", "")
	}
	if w.inPrefix() {
		// feasibility of everything inside the prefix was established by the path that queued it
		w.assertPC(c)
		return
	}
	if w.model != nil && c.Eval(w.model, map[int32]uint64{}) != 0 {
		w.assertPC(c) // the cached model witnesses feasibility
		return
	}
	res, m := w.solver.Check(c, w.nondetVars())
	switch res {
	case Unsat:
		w.endPath("assume", "")
	case Unknown:
		w.endPath("unsupported", "solver unknown at assume")
	}
	w.model = m
	w.assertPC(c)
}

// assertCond checks a harness assertion on the current path.
func (w *Worker) assertCond(cond value, label string, fr *frame) {
	w.st.obligations++
	w.events = append(w.events, pathEvent{kind: "ASSERT", label: label, val: cond})
	switch c := cond.(type) {
	case bool:
		if c {
			w.st.discharged++
			return
		}
		w.reportViolation("assert", label, "assertion is false on this path", nil)
		w.endPath("violation-end", "assert "+label)
	case *Term:
		nc := w.tt.Not(c)
		res, _ := w.solver.Check(nc, nil)
		switch res {
		case Unsat:
			w.st.discharged++
			return // c is implied by the path condition
		case Unknown:
			w.st.unsup["solver unknown at assert "+label]++
			w.assumeTerm(c)
			return
		}
		w.reportViolation("assert", label, "assertion can be false", nc)
		// continue on the side where it holds (if any)
		res2, _ := w.solver.Check(c, nil)
		if res2 != Sat {
			w.endPath("violation-end", "assert "+label)
		}
		w.assertPC(c)
	default:
		panic(unsupported{fmt.Sprintf("vAssert(%T)", c)})
	}
}

// ---------------------------------------------------------------------------------------------
// standard library intercepts

var stdIntercepts map[string]interceptFn

func ptrArg(v value) *value {
	p, ok := v.(*value)
	if !ok {
		panic(unsupported{fmt.Sprintf("expected pointer, have %T", v)})
	}
	return p
}

func (w *Worker) atomicLoad(args []value) value {
	p := ptrArg(args[0])
	if p == nil {
		w.nilDeref()
	}
	return *p
}

func atomicOp(kind string, t types.Type) interceptFn {
	return func(w *Worker, fr *frame, fn *ssa.Function, args []value) value {
		w.sched.point(fr.g, "atomic")
		p := ptrArg(args[0])
		if p == nil {
			w.nilDeref()
		}
		switch kind {
		case "load":
			return *p
		case "store":
			w.logStore(p)
			*p = args[1]
			return nil
		case "swap":
			old := *p
			w.logStore(p)
			*p = args[1]
			return old
		case "add":
			nv := w.binop(token.ADD, t, *p, args[1])
			w.logStore(p)
			*p = nv
			return nv
		case "and":
			old := *p
			w.logStore(p)
			*p = w.binop(token.AND, t, *p, args[1])
			return old
		case "or":
			old := *p
			w.logStore(p)
			*p = w.binop(token.OR, t, *p, args[1])
			return old
		case "cas":
			eq := w.eqv(t, *p, args[1])
			if w.decide(eq, "cas") {
				w.logStore(p)
				*p = args[2]
				return true
			}
			return false
		}
		panic("atomicOp " + kind)
	}
}

func (w *Worker) callMethod(fr *frame, recv iface, name string, args ...value) value {
	if recv.t == nil {
		w.nilDeref()
	}
	var m *ssa.Function
	ms := w.prog.Prog.MethodSets.MethodSet(recv.t)
	for i := 0; i < ms.Len(); i++ {
		if ms.At(i).Obj().Name() == name {
			m = w.prog.Prog.MethodValue(ms.At(i))
			break
		}
	}
	if m == nil {
		panic(unsupported{"callMethod: no method " + name + " on " + recv.t.String()})
	}
	return w.call(fr, fr.g, m, append([]value{recv.v}, args...))
}

func (w *Worker) mutex(p *value) *mutexState {
	m := w.sched.mutexes[p]
	if m == nil {
		m = &mutexState{}
		w.sched.mutexes[p] = m
	}
	return m
}

func (w *Worker) wakeWaiters(key string) {
	for _, g := range w.sched.gs {
		if g.blocked && g.waitOn == key && !g.forever {
			g.blocked = false
		}
	}
}

func (w *Worker) mutexLock(fr *frame, p *value) {
	if p == nil {
		w.nilDeref()
	}
	fr.g.waitFn = repoFn(fr)
	w.sched.point(fr.g, "lock")
	m := w.mutex(p)
	key := fmt.Sprintf("mutex %p", p)
	for m.locked {
		w.sched.block(fr.g, key)
	}
	m.locked = true
	m.owner = fr.g.id
}

func (w *Worker) mutexUnlock(fr *frame, p *value) {
	if p == nil {
		w.nilDeref()
	}
	m := w.mutex(p)
	if !m.locked {
		w.reportViolation("panic", "unlock-of-unlocked-mutex", "fatal error: sync: unlock of unlocked mutex", nil)
		w.endPath("violation-end", "unlock of unlocked mutex")
	}
	m.locked = false
	w.wakeWaiters(fmt.Sprintf("mutex %p", p))
}

func (w *Worker) rw(p *value) *rwState {
	m := w.sched.rwmutexes[p]
	if m == nil {
		m = &rwState{}
		w.sched.rwmutexes[p] = m
	}
	return m
}

func bytesOf(w *Worker, v value) []value {
	switch s := v.(type) {
	case []value:
		return s
	case string, *symStr:
		return strBytes(s)
	}
	panic(unsupported{fmt.Sprintf("bytesOf %T", v)})
}

func init() {
	i64 := types.Typ[types.Int64]
	i32 := types.Typ[types.Int32]
	u32 := types.Typ[types.Uint32]
	u64 := types.Typ[types.Uint64]
	uptr := types.Typ[types.Uintptr]
	stdIntercepts = map[string]interceptFn{}
	S := stdIntercepts
	for _, p := range []string{"sync/atomic", "internal/runtime/atomic"} {
		for name, t := range map[string]types.Type{"Int32": i32, "Int64": i64, "Uint32": u32, "Uint64": u64, "Uintptr": uptr} {
			S[p+".Load"+name] = atomicOp("load", t)
			S[p+".Store"+name] = atomicOp("store", t)
			S[p+".Swap"+name] = atomicOp("swap", t)
			S[p+".Add"+name] = atomicOp("add", t)
			S[p+".And"+name] = atomicOp("and", t)
			S[p+".Or"+name] = atomicOp("or", t)
			S[p+".CompareAndSwap"+name] = atomicOp("cas", t)
		}
		S[p+".LoadPointer"] = atomicOp("load", types.Typ[types.UnsafePointer])
		S[p+".StorePointer"] = atomicOp("store", types.Typ[types.UnsafePointer])
		S[p+".SwapPointer"] = atomicOp("swap", types.Typ[types.UnsafePointer])
		S[p+".CompareAndSwapPointer"] = atomicOp("cas", types.Typ[types.UnsafePointer])
	}
	// atomic.Pointer[T]: the field v holds the *T directly
	ptrField := func(w *Worker, recv value) *value {
		p := ptrArg(recv)
		if p == nil {
			w.nilDeref()
		}
		s := (*p).(structure)
		// struct { _ [0]*T; _ noCopy; v unsafe.Pointer }
		return &s[len(s)-1]
	}
	unwrapPtr := func(fn *ssa.Function, v value) value {
		if u, ok := v.(unsafePtr); ok {
			if u.p == nil {
				return zero(fn.Signature.Results().At(0).Type())
			}
			return u.p
		}
		return v
	}
	S["(*sync/atomic.Pointer[T]).Load"] = func(w *Worker, fr *frame, fn *ssa.Function, args []value) value {
		w.sched.point(fr.g, "atomic")
		return unwrapPtr(fn, *ptrField(w, args[0]))
	}
	S["(*sync/atomic.Pointer[T]).Store"] = func(w *Worker, fr *frame, fn *ssa.Function, args []value) value {
		w.sched.point(fr.g, "atomic")
		f := ptrField(w, args[0])
		w.logStore(f)
		*f = args[1]
		return nil
	}
	S["(*sync/atomic.Pointer[T]).Swap"] = func(w *Worker, fr *frame, fn *ssa.Function, args []value) value {
		w.sched.point(fr.g, "atomic")
		f := ptrField(w, args[0])
		old := unwrapPtr(fn, *f)
		w.logStore(f)
		*f = args[1]
		return old
	}
	S["(*sync/atomic.Pointer[T]).CompareAndSwap"] = func(w *Worker, fr *frame, fn *ssa.Function, args []value) value {
		w.sched.point(fr.g, "atomic")
		f := ptrField(w, args[0])
		cur := *f
		if u, ok := cur.(unsafePtr); ok {
			if u.p == nil {
				cur = (*value)(nil)
			} else {
				cur = u.p
			}
		}
		if cur.(*value) == args[1].(*value) {
			w.logStore(f)
			*f = args[2]
			return true
		}
		return false
	}
	// atomic.Value: struct{ v any }
	S["(*sync/atomic.Value).Load"] = func(w *Worker, fr *frame, fn *ssa.Function, args []value) value {
		w.sched.point(fr.g, "atomic")
		p := ptrArg(args[0])
		return (*p).(structure)[0]
	}
	S["(*sync/atomic.Value).Store"] = func(w *Worker, fr *frame, fn *ssa.Function, args []value) value {
		w.sched.point(fr.g, "atomic")
		p := ptrArg(args[0])
		if args[1].(iface).t == nil {
			panic(targetPanic{w.runtimeError("sync/atomic: store of nil value into Value")})
		}
		f := &(*p).(structure)[0]
		w.logStore(f)
		*f = args[1]
		return nil
	}
	S["(*sync/atomic.Value).Swap"] = func(w *Worker, fr *frame, fn *ssa.Function, args []value) value {
		w.sched.point(fr.g, "atomic")
		p := ptrArg(args[0])
		f := &(*p).(structure)[0]
		old := *f
		w.logStore(f)
		*f = args[1]
		return old
	}
	S["(*sync/atomic.Value).CompareAndSwap"] = func(w *Worker, fr *frame, fn *ssa.Function, args []value) value {
		w.sched.point(fr.g, "atomic")
		p := ptrArg(args[0])
		f := &(*p).(structure)[0]
		if w.decide(w.eqv(types.NewInterfaceType(nil, nil), *f, args[1]), "cas") {
			w.logStore(f)
			*f = args[2]
			return true
		}
		return false
	}

	// sync.Mutex
	S["(*sync.Mutex).Lock"] = func(w *Worker, fr *frame, fn *ssa.Function, args []value) value {
		w.mutexLock(fr, ptrArg(args[0]))
		return nil
	}
	S["(*sync.Mutex).Unlock"] = func(w *Worker, fr *frame, fn *ssa.Function, args []value) value {
		w.mutexUnlock(fr, ptrArg(args[0]))
		return nil
	}
	S["(*sync.Mutex).TryLock"] = func(w *Worker, fr *frame, fn *ssa.Function, args []value) value {
		w.sched.point(fr.g, "trylock")
		m := w.mutex(ptrArg(args[0]))
		if m.locked {
			return false
		}
		m.locked = true
		return true
	}
	// sync.RWMutex
	S["(*sync.RWMutex).Lock"] = func(w *Worker, fr *frame, fn *ssa.Function, args []value) value {
		p := ptrArg(args[0])
		w.sched.point(fr.g, "lock")
		m := w.rw(p)
		key := fmt.Sprintf("rwmutex %p", p)
		for m.writer || m.readers > 0 {
			w.sched.block(fr.g, key)
		}
		m.writer = true
		return nil
	}
	S["(*sync.RWMutex).Unlock"] = func(w *Worker, fr *frame, fn *ssa.Function, args []value) value {
		p := ptrArg(args[0])
		m := w.rw(p)
		if !m.writer {
			w.reportViolation("panic", "unlock-of-unlocked-rwmutex", "fatal error: sync: Unlock of unlocked RWMutex", nil)
			w.endPath("violation-end", "unlock of unlocked rwmutex")
		}
		m.writer = false
		w.wakeWaiters(fmt.Sprintf("rwmutex %p", p))
		return nil
	}
	S["(*sync.RWMutex).RLock"] = func(w *Worker, fr *frame, fn *ssa.Function, args []value) value {
		p := ptrArg(args[0])
		w.sched.point(fr.g, "rlock")
		m := w.rw(p)
		key := fmt.Sprintf("rwmutex %p", p)
		for m.writer {
			w.sched.block(fr.g, key)
		}
		m.readers++
		return nil
	}
	S["(*sync.RWMutex).RUnlock"] = func(w *Worker, fr *frame, fn *ssa.Function, args []value) value {
		p := ptrArg(args[0])
		m := w.rw(p)
		if m.readers <= 0 {
			w.reportViolation("panic", "runlock-of-unlocked-rwmutex", "fatal error: sync: RUnlock of unlocked RWMutex", nil)
			w.endPath("violation-end", "runlock of unlocked rwmutex")
		}
		m.readers--
		w.wakeWaiters(fmt.Sprintf("rwmutex %p", p))
		return nil
	}
	// sync.WaitGroup
	wg := func(w *Worker, p *value) *wgState {
		s := w.sched.wgs[p]
		if s == nil {
			s = &wgState{}
			w.sched.wgs[p] = s
		}
		return s
	}
	S["(*sync.WaitGroup).Add"] = func(w *Worker, fr *frame, fn *ssa.Function, args []value) value {
		p := ptrArg(args[0])
		s := wg(w, p)
		s.n += w.concInt(args[1], "wg-add")
		if s.n < 0 {
			panic(targetPanic{w.runtimeError("sync: negative WaitGroup counter")})
		}
		if s.n == 0 {
			w.wakeWaiters(fmt.Sprintf("waitgroup %p", p))
		}
		return nil
	}
	S["(*sync.WaitGroup).Done"] = func(w *Worker, fr *frame, fn *ssa.Function, args []value) value {
		p := ptrArg(args[0])
		w.sched.point(fr.g, "wg-done")
		s := wg(w, p)
		s.n--
		if s.n < 0 {
			panic(targetPanic{w.runtimeError("sync: negative WaitGroup counter")})
		}
		if s.n == 0 {
			w.wakeWaiters(fmt.Sprintf("waitgroup %p", p))
		}
		return nil
	}
	S["(*sync.WaitGroup).Wait"] = func(w *Worker, fr *frame, fn *ssa.Function, args []value) value {
		p := ptrArg(args[0])
		fr.g.waitFn = repoFn(fr)
		w.sched.point(fr.g, "wg-wait")
		s := wg(w, p)
		key := fmt.Sprintf("waitgroup %p", p)
		for s.n > 0 {
			w.sched.block(fr.g, key)
		}
		return nil
	}
	// sync.Cond: struct { noCopy; L Locker; notify; checker }
	condL := func(p *value) iface {
		return (*p).(structure)[1].(iface)
	}
	cs := func(w *Worker, p *value) *condState {
		s := w.sched.conds[p]
		if s == nil {
			s = &condState{}
			w.sched.conds[p] = s
		}
		return s
	}
	S["(*sync.Cond).Wait"] = func(w *Worker, fr *frame, fn *ssa.Function, args []value) value {
		p := ptrArg(args[0])
		s := cs(w, p)
		fr.g.waitFn = repoFn(fr)
		cw := &condWaiter{g: fr.g}
		s.waiters = append(s.waiters, cw)
		w.callMethod(fr, condL(p), "Unlock")
		key := fmt.Sprintf("cond %p", p)
		for !cw.signaled {
			w.sched.block(fr.g, key)
		}
		w.callMethod(fr, condL(p), "Lock")
		return nil
	}
	S["(*sync.Cond).Signal"] = func(w *Worker, fr *frame, fn *ssa.Function, args []value) value {
		p := ptrArg(args[0])
		w.sched.point(fr.g, "cond-signal")
		s := cs(w, p)
		if len(s.waiters) > 0 {
			cw := s.waiters[0]
			s.waiters = s.waiters[1:]
			cw.signaled = true
			cw.g.blocked = false
		}
		return nil
	}
	S["(*sync.Cond).Broadcast"] = func(w *Worker, fr *frame, fn *ssa.Function, args []value) value {
		p := ptrArg(args[0])
		w.sched.point(fr.g, "cond-broadcast")
		s := cs(w, p)
		for _, cw := range s.waiters {
			cw.signaled = true
			cw.g.blocked = false
		}
		s.waiters = nil
		return nil
	}
	// sync.Pool: struct { noCopy; local; localSize; victim; victimSize; New func() any }
	S["(*sync.Pool).Get"] = func(w *Worker, fr *frame, fn *ssa.Function, args []value) value {
		p := ptrArg(args[0])
		if items := w.sched.pools[p]; len(items) > 0 {
			v := items[len(items)-1]
			w.sched.pools[p] = items[:len(items)-1]
			return v
		}
		s := (*p).(structure)
		newf := s[len(s)-1]
		if isNilRef(newf) {
			return iface{}
		}
		return w.call(fr, fr.g, newf, nil)
	}
	S["(*sync.Pool).Put"] = func(w *Worker, fr *frame, fn *ssa.Function, args []value) value {
		p := ptrArg(args[0])
		if args[1].(iface).t == nil {
			return nil
		}
		w.sched.pools[p] = append(w.sched.pools[p], args[1])
		return nil
	}
	S["sync.runtime_registerPoolCleanup"] = nop
	S["sync.runtime_procPin"] = func(w *Worker, fr *frame, fn *ssa.Function, args []value) value { return 0 }
	S["sync.runtime_procUnpin"] = nop
	S["sync.throw"] = func(w *Worker, fr *frame, fn *ssa.Function, args []value) value {
		panic(targetPanic{w.runtimeError("fatal: " + w.goString(args[0]))})
	}
	S["sync.fatal"] = S["sync.throw"]

	// runtime
	S["runtime.GC"] = nop
	S["runtime.Gosched"] = func(w *Worker, fr *frame, fn *ssa.Function, args []value) value {
		w.sched.point(fr.g, "gosched")
		return nil
	}
	S["runtime.KeepAlive"] = nop
	S["runtime.SetFinalizer"] = nop
	S["runtime.NumCPU"] = func(w *Worker, fr *frame, fn *ssa.Function, args []value) value { return 4 }
	S["runtime.GOMAXPROCS"] = func(w *Worker, fr *frame, fn *ssa.Function, args []value) value { return 4 }
	S["runtime.NumGoroutine"] = func(w *Worker, fr *frame, fn *ssa.Function, args []value) value {
		n := 0
		for _, g := range w.sched.gs {
			if !g.done {
				n++
			}
		}
		return n
	}
	S["runtime.Callers"] = func(w *Worker, fr *frame, fn *ssa.Function, args []value) value { return 0 }
	S["runtime.Caller"] = func(w *Worker, fr *frame, fn *ssa.Function, args []value) value {
		return tuple{uintptr(0), "", 0, false}
	}
	S["runtime.ReadMemStats"] = func(w *Worker, fr *frame, fn *ssa.Function, args []value) value {
		// every field stays zero except Alloc, which is an arbitrary reading
		p := ptrArg(args[0])
		s := (*p).(structure)
		w.logStore(&s[0])
		s[0] = lower(types.Typ[types.Uint64], w.freshVar("memstats.Alloc", 64))
		return nil
	}
	S["runtime/debug.SetGCPercent"] = func(w *Worker, fr *frame, fn *ssa.Function, args []value) value { return 100 }
	S["runtime/debug.FreeOSMemory"] = nop
	S["os.Getenv"] = func(w *Worker, fr *frame, fn *ssa.Function, args []value) value { return "" }
	S["os.LookupEnv"] = func(w *Worker, fr *frame, fn *ssa.Function, args []value) value { return tuple{"", false} }
	S["syscall.Getenv"] = func(w *Worker, fr *frame, fn *ssa.Function, args []value) value { return tuple{"", false} }
	S["os.runtime_args"] = func(w *Worker, fr *frame, fn *ssa.Function, args []value) value { return []value{"verif"} }
	S["internal/godebug.setUpdate"] = nop
	S["internal/godebug.registerMetric"] = nop
	S["internal/godebug.setNewIncNonDefault"] = nop
	S["(*internal/godebug.Setting).Value"] = func(w *Worker, fr *frame, fn *ssa.Function, args []value) value { return "" }
	S["(*internal/godebug.Setting).IncNonDefault"] = nop

	// time
	S["time.now"] = func(w *Worker, fr *frame, fn *ssa.Function, args []value) value {
		return tuple{int64(1790000000), int32(0), w.monoReading()}
	}
	S["time.runtimeNano"] = func(w *Worker, fr *frame, fn *ssa.Function, args []value) value {
		return w.monoReading()
	}
	S["time.Sleep"] = func(w *Worker, fr *frame, fn *ssa.Function, args []value) value {
		w.sched.point(fr.g, "sleep")
		return nil
	}
	S["time.NewTimer"] = func(w *Worker, fr *frame, fn *ssa.Function, args []value) value {
		w.lastTimerDur = args[0]
		return w.newTimer(fn, false, nil)
	}
	S["(time.Duration).String"] = func(w *Worker, fr *frame, fn *ssa.Function, args []value) value {
		if d, ok := args[0].(int64); ok {
			return time.Duration(d).String()
		}
		return "<duration>"
	}
	S["(time.Time).String"] = func(w *Worker, fr *frame, fn *ssa.Function, args []value) value { return "<time>" }
	S["(time.Time).Format"] = S["(time.Time).String"]
	S["(time.Time).Add"] = func(w *Worker, fr *frame, fn *ssa.Function, args []value) value {
		t := args[0].(structure)
		wall, wok := t[0].(uint64)
		if !wok {
			panic(unsupported{"time.Time.Add on symbolic wall clock"})
		}
		_, dSym := args[1].(*Term)
		_, eSym := t[1].(*Term)
		if wall&(1<<63) == 0 {
			if dSym || eSym {
				panic(unsupported{"time.Time.Add with symbolic operand on a time without monotonic reading"})
			}
			// concrete wall-clock time: real arithmetic
			tt := timeFromStruct(t)
			return timeToStruct(tt.Add(time.Duration(args[1].(int64))), t[2])
		}
		// monotonic: ext' = ext + d, assuming no overflow (checked)
		i64 := types.Typ[types.Int64]
		ne := w.binop(token.ADD, i64, t[1], args[1])
		if dSym || eSym {
			// overflow <=> sign(d) == sign(ext) && sign(result) != sign(ext); readings are < 2^60 so only huge |d| overflows
			ovf := w.orv(
				w.andv(w.binop(token.GTR, i64, args[1], int64(0)), w.binop(token.LSS, i64, ne, t[1])),
				w.andv(w.binop(token.LSS, i64, args[1], int64(0)), w.binop(token.GTR, i64, ne, t[1])))
			if w.decide(ovf, "time-add-overflow") {
				panic(unsupported{"time.Time.Add overflows the monotonic reading (bound the durations in the harness)"})
			}
		}
		return structure{t[0], ne, t[2]}
	}
	S["time.NewTicker"] = func(w *Worker, fr *frame, fn *ssa.Function, args []value) value {
		if d, ok := args[0].(int64); ok && d <= 0 {
			panic(targetPanic{w.runtimeError("non-positive interval for NewTicker")})
		}
		return w.newTimer(fn, true, nil)
	}
	S["time.AfterFunc"] = func(w *Worker, fr *frame, fn *ssa.Function, args []value) value {
		return w.newTimer(fn, false, args[1])
	}
	stop := func(w *Worker, fr *frame, fn *ssa.Function, args []value) value {
		p := ptrArg(args[0])
		if p == nil {
			w.nilDeref()
		}
		t := w.sched.timerByCell[p]
		if t == nil {
			panic(targetPanic{w.runtimeError("time: Stop called on uninitialized Timer")})
		}
		w.sched.point(fr.g, "timer-stop")
		was := t.armed
		t.armed = false
		if fn.Signature.Results().Len() == 0 {
			return nil
		}
		return was
	}
	S["(*time.Timer).Stop"] = stop
	S["(*time.Ticker).Stop"] = stop
	reset := func(w *Worker, fr *frame, fn *ssa.Function, args []value) value {
		p := ptrArg(args[0])
		if p == nil {
			w.nilDeref()
		}
		t := w.sched.timerByCell[p]
		if t == nil {
			panic(targetPanic{w.runtimeError("time: Reset called on uninitialized Timer")})
		}
		w.sched.point(fr.g, "timer-reset")
		w.sched.timerResets++
		was := t.armed
		t.armed = true
		// Go 1.23 semantics: Reset drains a stale value from a synchronous timer channel
		if t.ch != nil {
			t.ch.buf = nil
		}
		if fn.Signature.Results().Len() == 0 {
			return nil
		}
		return was
	}
	S["(*time.Timer).Reset"] = reset
	S["(*time.Ticker).Reset"] = reset

	// context.WithValue checks comparability through reflectlite (unsafe); build the valueCtx directly
	S["context.WithValue"] = func(w *Worker, fr *frame, fn *ssa.Function, args []value) value {
		parent, key := args[0].(iface), args[1].(iface)
		if parent.t == nil {
			panic(targetPanic{w.runtimeError("cannot create context from nil parent")})
		}
		if key.t == nil {
			panic(targetPanic{w.runtimeError("nil key")})
		}
		if !types.Comparable(key.t) {
			panic(targetPanic{w.runtimeError("key is not comparable")})
		}
		cell := value(structure{parent, key, args[2]})
		return iface{t: types.NewPointer(w.namedType("context", "valueCtx")), v: &cell}
	}

	// OTel attribute sets are built with reflect.ArrayOf; they are only ever used here as opaque,
	// comparable map keys, so NewSet is modelled by an injective canonical encoding of its
	// (sorted, last-value-wins) key/values.
	S["go.opentelemetry.io/otel/internal/attribute.StringSliceValue"] = func(w *Worker, fr *frame, fn *ssa.Function, args []value) value {
		src, _ := args[0].([]value)
		cp := make([]value, len(src))
		copy(cp, src)
		return iface{t: types.NewSlice(types.Typ[types.String]), v: cp}
	}
	S["go.opentelemetry.io/otel/attribute.NewSet"] = func(w *Worker, fr *frame, fn *ssa.Function, args []value) value {
		kvs, _ := args[0].([]value)
		enc := map[string]string{}
		var keys []string
		for _, kv := range kvs {
			st := kv.(structure)
			key := w.goString(st[0])
			val := st[1].(structure) // vtype, numeric, stringly, slice
			var sb strings.Builder
			fmt.Fprintf(&sb, "t%v|n%v|", val[0], val[1])
			str := w.goString(val[2])
			fmt.Fprintf(&sb, "s%d:%s|", len(str), str)
			if sl, ok := val[3].(iface); ok && sl.t != nil {
				if elems, ok := sl.v.([]value); ok {
					fmt.Fprintf(&sb, "l%d", len(elems))
					for _, e := range elems {
						es := w.goString(e)
						fmt.Fprintf(&sb, "[%d:%s]", len(es), es)
					}
				} else {
					panic(unsupported{"attribute.NewSet: unsupported slice value"})
				}
			}
			if _, dup := enc[key]; !dup {
				keys = append(keys, key)
			}
			enc[key] = sb.String()
		}
		sort.Strings(keys)
		var canon strings.Builder
		for _, k := range keys {
			fmt.Fprintf(&canon, "%d:%s=%s;", len(k), k, enc[k])
		}
		// Set{equivalent: Distinct{iface: <canonical string>}}
		// the sorted, de-duplicated key/values are remembered so that ToSlice/Len/Get can answer
		var sorted []value
		for _, k := range keys {
			for i := len(kvs) - 1; i >= 0; i-- {
				if w.goString(kvs[i].(structure)[0]) == k {
					sorted = append(sorted, kvs[i])
					break
				}
			}
		}
		attrSetElems.Store(canon.String(), sorted)
		return structure{structure{iface{t: types.Typ[types.String], v: canon.String()}}}
	}
	attrSetOf := func(p value) []value {
		pp, _ := p.(*value)
		if pp == nil {
			return nil
		}
		st, ok := (*pp).(structure)
		if !ok {
			return nil
		}
		d, ok := st[0].(structure)
		if !ok {
			return nil
		}
		i, ok := d[0].(iface)
		if !ok || i.t == nil {
			return nil
		}
		key, ok := i.v.(string)
		if !ok {
			// the zero Set / emptySet holds a [0]KeyValue
			return nil
		}
		v, ok := attrSetElems.Load(key)
		if !ok {
			panic(unsupported{"attribute.Set not built by the NewSet model"})
		}
		return v.([]value)
	}
	S["(*go.opentelemetry.io/otel/attribute.Set).ToSlice"] = func(w *Worker, fr *frame, fn *ssa.Function, args []value) value {
		el := attrSetOf(args[0])
		out := make([]value, len(el))
		for i := range el {
			out[i] = deepCopyValue(el[i], map[*value]*value{})
		}
		return out
	}
	S["(*go.opentelemetry.io/otel/attribute.Set).Len"] = func(w *Worker, fr *frame, fn *ssa.Function, args []value) value {
		return len(attrSetOf(args[0]))
	}
	S["(*go.opentelemetry.io/otel/attribute.Set).Get"] = func(w *Worker, fr *frame, fn *ssa.Function, args []value) value {
		el := attrSetOf(args[0])
		i, ok := args[1].(int)
		if !ok {
			panic(unsupported{"attribute.Set.Get with a symbolic index"})
		}
		if i < 0 || i >= len(el) {
			return tuple{zero(fn.Signature.Results().At(0).Type()), false}
		}
		return tuple{deepCopyValue(el[i], map[*value]*value{}), true}
	}


	// gonum's graph iterators range over Go maps through runtime.mapiterinit / reflect.mapiternext
	// (go:linkname + unsafe).  They are modelled over the engine's insertion-ordered maps: the
	// position lives in the iterator's own hiter struct (startBucket = entries consumed, t != nil =
	// initialised, offset = exhausted), so Reset (hiter = hiter{}) works unchanged.
	gonumIter := func(recv value) (*omap, structure) {
		pp, _ := recv.(*value)
		if pp == nil {
			panic(unsupported{"gonum mapIter: nil receiver"})
		}
		st := (*pp).(structure) // {m *emptyInterface, hiter hiter}
		mp, _ := st[0].(*value)
		if mp == nil {
			panic(unsupported{"gonum mapIter: no map"})
		}
		var m *omap
		switch x := (*mp).(type) {
		case iface:
			m, _ = x.v.(*omap)
		case *omap:
			m = x
		default:
			panic(unsupported{fmt.Sprintf("gonum mapIter over %T", *mp)})
		}
		return m, st[1].(structure)
	}
	gonumCur := func(w *Worker, recv value, what string) *mentry {
		m, h := gonumIter(recv)
		if h[2] == nil || isNilValue(h[2]) {
			panic(targetPanic{w.runtimeError("mapIter." + what + " called before Next")})
		}
		pos, _ := h[8].(uintptr)
		if ex, _ := h[9].(uint8); ex != 0 || pos == 0 || m == nil || int(pos) > len(m.entries) {
			panic(targetPanic{w.runtimeError("mapIter." + what + " called on exhausted iterator")})
		}
		return m.entries[pos-1]
	}
	S["(*gonum.org/v1/gonum/graph/iterator.mapIter).next"] = func(w *Worker, fr *frame, fn *ssa.Function, args []value) value {
		m, h := gonumIter(args[0])
		pos, _ := h[8].(uintptr)
		if h[2] == nil || isNilValue(h[2]) {
			pos = 0
			h[2] = unsafePtr{p: new(value)} // initialised
		} else if ex, _ := h[9].(uint8); ex != 0 {
			panic(targetPanic{w.runtimeError("mapIter.next called on exhausted iterator")})
		}
		if m != nil {
			for int(pos) < len(m.entries) {
				e := m.entries[pos]
				pos++
				if !e.deleted {
					h[8] = pos
					return true
				}
			}
		}
		h[8] = pos
		h[9] = uint8(1)
		return false
	}
	S["(*gonum.org/v1/gonum/graph/iterator.mapIter).id"] = func(w *Worker, fr *frame, fn *ssa.Function, args []value) value {
		return gonumCur(w, args[0], "id").key
	}
	for _, nm := range []string{"node", "line", "weightedLine"} {
		nm := nm
		S["(*gonum.org/v1/gonum/graph/iterator.mapIter)."+nm] = func(w *Worker, fr *frame, fn *ssa.Function, args []value) value {
			return gonumCur(w, args[0], nm).val
		}
	}


	// jsoniter: Config.Froze registers float / HTML / number / raw-message *encoder* extensions keyed by
	// reflect2 types (unsafe type-table walking).  The pdata decoders only use the Iterator, which is
	// plain code: the four registration helpers get empty bodies, everything else of jsoniter is interpreted.
	for _, nm := range []string{"marshalFloatWith6Digits", "escapeHTML", "useNumber", "validateJsonRawMessage"} {
		S["(*github.com/json-iterator/go.frozenConfig)."+nm] = nop
	}

	// proto.Clone is reflection-driven; the messages cloned here (rpc Status) are plain data: structural deep copy
	S["google.golang.org/protobuf/proto.Clone"] = func(w *Worker, fr *frame, fn *ssa.Function, args []value) value {
		return deepCopyValue(args[0], map[*value]*value{})
	}

	// koanf's maps.Copy goes through mitchellh/copystructure (reflection): structural deep copy of the map tree
	S["github.com/knadh/koanf/maps.Copy"] = func(w *Worker, fr *frame, fn *ssa.Function, args []value) value {
		if m, ok := args[0].(*omap); ok && m == nil {
			return newOmap(types.Typ[types.String])
		}
		return deepCopyValue(args[0], map[*value]*value{})
	}

	// errors
	S["errors.Is"] = func(w *Worker, fr *frame, fn *ssa.Function, args []value) value {
		return w.errorsIs(fr, args[0].(iface), args[1].(iface), 0)
	}
	S["errors.As"] = func(w *Worker, fr *frame, fn *ssa.Function, args []value) value {
		return w.errorsAs(fr, args[0].(iface), args[1].(iface), 0)
	}

	// math
	S["math.Float64bits"] = func(w *Worker, fr *frame, fn *ssa.Function, args []value) value {
		switch x := args[0].(type) {
		case float64:
			return math.Float64bits(x)
		case floatSym:
			return value(x.bits)
		}
		panic(unsupported{"Float64bits"})
	}
	S["math.Float64frombits"] = func(w *Worker, fr *frame, fn *ssa.Function, args []value) value {
		switch x := args[0].(type) {
		case uint64:
			return math.Float64frombits(x)
		case *Term:
			return floatSym{bits: x}
		}
		panic(unsupported{"Float64frombits"})
	}
	S["math.Float32bits"] = func(w *Worker, fr *frame, fn *ssa.Function, args []value) value {
		switch x := args[0].(type) {
		case float32:
			return math.Float32bits(x)
		case floatSym:
			return value(x.bits)
		}
		panic(unsupported{"Float32bits"})
	}
	S["math.Float32frombits"] = func(w *Worker, fr *frame, fn *ssa.Function, args []value) value {
		switch x := args[0].(type) {
		case uint32:
			return math.Float32frombits(x)
		case *Term:
			return floatSym{bits: x}
		}
		panic(unsupported{"Float32frombits"})
	}
	mathUn := func(f func(float64) float64) interceptFn {
		return func(w *Worker, fr *frame, fn *ssa.Function, args []value) value {
			x, ok := args[0].(float64)
			if !ok {
				panic(unsupported{"math on symbolic float"})
			}
			return f(x)
		}
	}
	S["math.Floor"] = mathUn(math.Floor)
	S["math.Ceil"] = mathUn(math.Ceil)
	S["math.Trunc"] = mathUn(math.Trunc)
	S["math.Sqrt"] = mathUn(math.Sqrt)
	S["math.Abs"] = mathUn(math.Abs)
	S["math.Log"] = mathUn(math.Log)
	S["math.Exp"] = mathUn(math.Exp)
	S["math.Log2"] = mathUn(math.Log2)
	S["math.Log10"] = mathUn(math.Log10)

	// math/bits on symbolic words
	S["math/bits.Len64"] = func(w *Worker, fr *frame, fn *ssa.Function, args []value) value {
		return w.bitsLen(args[0], 64)
	}
	S["math/bits.Len32"] = func(w *Worker, fr *frame, fn *ssa.Function, args []value) value {
		return w.bitsLen(args[0], 32)
	}
	S["math/bits.Len"] = func(w *Worker, fr *frame, fn *ssa.Function, args []value) value {
		return w.bitsLen(args[0], 64)
	}
	S["math/bits.LeadingZeros64"] = func(w *Worker, fr *frame, fn *ssa.Function, args []value) value {
		return w.binop(token.SUB, types.Typ[types.Int], 64, w.bitsLen(args[0], 64))
	}
	S["math/bits.TrailingZeros64"] = func(w *Worker, fr *frame, fn *ssa.Function, args []value) value {
		if x, ok := args[0].(uint64); ok {
			return bits.TrailingZeros64(x)
		}
		panic(unsupported{"TrailingZeros64 symbolic"})
	}

	// internal/bytealg (assembly)
	S["internal/bytealg.IndexByte"] = func(w *Worker, fr *frame, fn *ssa.Function, args []value) value {
		return w.indexByte(bytesOf(w, args[0]), args[1])
	}
	S["internal/bytealg.IndexByteString"] = S["internal/bytealg.IndexByte"]
	S["internal/bytealg.Equal"] = func(w *Worker, fr *frame, fn *ssa.Function, args []value) value {
		return w.symStrEq(bytesOf(w, args[0]), bytesOf(w, args[1]))
	}
	S["internal/bytealg.Compare"] = func(w *Worker, fr *frame, fn *ssa.Function, args []value) value {
		a, b := normStr(bytesOf(w, args[0])), normStr(bytesOf(w, args[1]))
		if w.decide(w.binopString(token.LSS, a, b), "compare") {
			return -1
		}
		if w.decide(w.eqv(types.Typ[types.String], a, b), "compare") {
			return 0
		}
		return 1
	}
	S["internal/bytealg.Count"] = func(w *Worker, fr *frame, fn *ssa.Function, args []value) value {
		n := 0
		for _, b := range bytesOf(w, args[0]) {
			if w.decide(w.eqv(types.Typ[types.Uint8], b, args[1]), "count") {
				n++
			}
		}
		return n
	}
	S["internal/bytealg.CountString"] = S["internal/bytealg.Count"]
	S["internal/bytealg.IndexString"] = func(w *Worker, fr *frame, fn *ssa.Function, args []value) value {
		return w.indexBytes(bytesOf(w, args[0]), bytesOf(w, args[1]))
	}
	S["internal/bytealg.Index"] = S["internal/bytealg.IndexString"]
	S["internal/bytealg.MakeNoZero"] = func(w *Worker, fr *frame, fn *ssa.Function, args []value) value {
		n := w.concInt(args[0], "makenozero")
		r := make([]value, n)
		for i := range r {
			r[i] = uint8(0)
		}
		return r
	}
	S["strings.IndexByte"] = S["internal/bytealg.IndexByte"]
	S["bytes.IndexByte"] = S["internal/bytealg.IndexByte"]
	S["internal/stringslite.IndexByte"] = S["internal/bytealg.IndexByte"]
	S["strings.Index"] = S["internal/bytealg.IndexString"]
	S["internal/stringslite.Index"] = S["internal/bytealg.IndexString"]

	// unsafe string/slice idioms used by strings.Builder and friends
	S["strings.(*Builder).String"] = nil
	delete(S, "strings.(*Builder).String")
	S["(*strings.Builder).String"] = func(w *Worker, fr *frame, fn *ssa.Function, args []value) value {
		p := ptrArg(args[0])
		s := (*p).(structure)
		buf := s[1].([]value)
		cp := make([]value, len(buf))
		copy(cp, buf)
		return normStr(cp)
	}
	S["(*strings.Builder).copyCheck"] = nop
	S["strings.Clone"] = func(w *Worker, fr *frame, fn *ssa.Function, args []value) value { return args[0] }
	S["internal/stringslite.Clone"] = S["strings.Clone"]
	S["unique.Make"] = nil
	delete(S, "unique.Make")

	// fmt in error-construction mode
	S["fmt.Errorf"] = func(w *Worker, fr *frame, fn *ssa.Function, args []value) value {
		return w.fmtErrorf(fr, args[0], args[1].([]value))
	}
	S["fmt.Sprintf"] = func(w *Worker, fr *frame, fn *ssa.Function, args []value) value {
		return w.fmtSprintf(fr, args[0], args[1].([]value))
	}
	S["fmt.Sprint"] = func(w *Worker, fr *frame, fn *ssa.Function, args []value) value {
		return w.fmtSprint(fr, args[0].([]value), "")
	}
	S["fmt.Sprintln"] = func(w *Worker, fr *frame, fn *ssa.Function, args []value) value {
		return w.fmtSprint(fr, args[0].([]value), " ")
	}
	S["fmt.Println"] = func(w *Worker, fr *frame, fn *ssa.Function, args []value) value { return tuple{0, iface{}} }
	S["fmt.Printf"] = S["fmt.Println"]
	S["fmt.Print"] = S["fmt.Println"]
	S["fmt.Fprintf"] = S["fmt.Println"]
	S["fmt.Fprintln"] = S["fmt.Println"]
	S["fmt.Fprint"] = S["fmt.Println"]

	// sort (reflectlite swapper)
	S["sort.Slice"] = func(w *Worker, fr *frame, fn *ssa.Function, args []value) value {
		w.sortSlice(fr, args[0].(iface).v.([]value), args[1])
		return nil
	}
	S["sort.SliceStable"] = S["sort.Slice"]
}

// attrSetElems remembers, per canonical encoding, the sorted key/values of a modelled attribute.Set.
var attrSetElems sync.Map

func nop(w *Worker, fr *frame, fn *ssa.Function, args []value) value { return nil }

func (w *Worker) sortSlice(fr *frame, s []value, less value) {
	// insertion sort on a copy, calling less(i, j) on the live slice (as sort.SliceStable does)
	n := len(s)
	for i := 1; i < n; i++ {
		for j := i; j > 0; j-- {
			r := w.call(fr, fr.g, less, []value{j, j - 1})
			if !w.decide(r, "sort-less") {
				break
			}
			w.logStore(&s[j])
			w.logStore(&s[j-1])
			s[j], s[j-1] = s[j-1], s[j]
		}
	}
}

func (w *Worker) bitsLen(x value, wd int) value {
	if t, ok := x.(*Term); ok {
		// ite chain: len = position of highest set bit + 1.  Shorten the chain when the path
		// condition bounds the operand (lengths are assumed small by the harnesses).
		if !w.inPrefix() || true {
			for _, k := range []int{10, 16, 32} {
				if k >= wd {
					break
				}
				key := fmt.Sprintf("lenbound:%d:%d", t.ID, k)
				implied, seen := w.boundCache[key]
				if !seen {
					res, _ := w.solver.Check(w.tt.Not(w.tt.Cmp(OpULt, t, w.tt.Const(t.W, uint64(1)<<uint(k)))), nil)
					implied = res == Unsat
					w.boundCache[key] = implied
				}
				if implied {
					wd = k
					break
				}
			}
		}
		// comparison chain (friendlier to the solvers than bit extraction):
		//   Len(x) = 0 if x < 1, 1 if x < 2, 2 if x < 4, ...
		// Len(y|1) = max(1, Len(y)): peephole for the generated varint-size code.
		minLen := uint64(0)
		if t.Op == OpBOr && t.A[1].Op == OpConst && t.A[1].C == 1 {
			t = t.A[0]
			minLen = 1
		} else if t.Op == OpBOr && t.A[0].Op == OpConst && t.A[0].C == 1 {
			t = t.A[1]
			minLen = 1
		}
		acc := w.tt.Const(64, uint64(wd))
		for k := wd - 1; k >= 0; k-- {
			v := uint64(k)
			if v < minLen {
				v = minLen
			}
			acc = w.tt.Ite(w.tt.Cmp(OpULt, t, w.tt.Const(t.W, uint64(1)<<uint(k))), w.tt.Const(64, v), acc)
		}
		return lower(types.Typ[types.Int], acc)
	}
	b, _ := bitsOf(x)
	return bits.Len64(b & mask(wd))
}

func (w *Worker) indexByte(b []value, c value) value {
	for i, x := range b {
		if w.decide(w.eqv(types.Typ[types.Uint8], x, c), "indexbyte") {
			return i
		}
	}
	return -1
}

func (w *Worker) indexBytes(hay, needle []value) value {
	if len(needle) == 0 {
		return 0
	}
	for i := 0; i+len(needle) <= len(hay); i++ {
		if w.decide(w.symStrEq(hay[i:i+len(needle)], needle), "index") {
			return i
		}
	}
	return -1
}

// monoReading returns a fresh monotonic clock reading (non-decreasing, bounded).
func (w *Worker) monoReading() value {
	if w.inInit > 0 {
		return int64(1)
	}
	v := w.freshVar("clock", 64)
	if v.IsConst() {
		w.clockReadings = append(w.clockReadings, int64(v.C))
		return int64(v.C)
	}
	lo := w.tt.Const(64, 1<<20)
	if w.lastClock != nil {
		lo = w.lastClock
	}
	w.assertPCNoRecord(w.tt.And(w.tt.Cmp(OpSLe, lo, v), w.tt.Cmp(OpSLe, v, w.tt.Const(64, 1<<60))))
	w.lastClock = v
	w.clockReadings = append(w.clockReadings, v)
	return v
}

// timeNowValue builds a time.Time for timer channel sends.
func (w *Worker) timeNowValue() value {
	return structure{uint64(1<<63 | (1790000000+2682288000)<<30), w.monoReading(), (*value)(nil)}
}

func (w *Worker) newTimer(fn *ssa.Function, periodic bool, f value) value {
	s := &w.sched
	res := fn.Signature.Results().At(0).Type() // *time.Timer or *time.Ticker
	cell := zero(deref(res))
	t := &timer{id: len(s.timers), armed: true, periodic: periodic, fn: f}
	st := cell.(structure)
	if f == nil {
		timeT := st[0] // chan field: we need the element type; find it from the struct type
		_ = timeT
		chT := deref(res).Underlying().(*types.Struct).Field(0).Type().Underlying().(*types.Chan)
		t.ch = w.newChan(1, chT.Elem())
		st[0] = t.ch
	}
	p := &cell
	t.cell = p
	s.timers = append(s.timers, t)
	s.timerByCell[p] = t
	return p
}

// errorsIs follows errors.Is without reflectlite.
func (w *Worker) errorsIs(fr *frame, err, target iface, depth int) value {
	if err.t == nil || target.t == nil {
		return err.t == nil && target.t == nil
	}
	if depth > 50 {
		panic(unsupported{"errors.Is: chain too deep"})
	}
	comparable := types.Comparable(target.t)
	for {
		if comparable && sameType(err.t, target.t) {
			if w.decide(w.eqv(err.t, err.v, target.v), "errors.Is") {
				return true
			}
		}
		if m := w.findMethod(err.t, "Is"); m != nil && m.Signature.Params().Len() == 1 && m.Signature.Results().Len() == 1 {
			if w.decide(w.call(fr, fr.g, m, []value{err.v, target}), "errors.Is.method") {
				return true
			}
		}
		if m := w.findMethod(err.t, "Unwrap"); m != nil && m.Signature.Params().Len() == 0 && m.Signature.Results().Len() == 1 {
			r := w.call(fr, fr.g, m, []value{err.v})
			switch r := r.(type) {
			case iface:
				if r.t == nil {
					return false
				}
				err = r
				continue
			case []value:
				for _, e := range r {
					if e.(iface).t == nil {
						continue
					}
					if w.decide(w.errorsIs(fr, e.(iface), target, depth+1), "errors.Is") {
						return true
					}
				}
				return false
			}
		}
		return false
	}
}

func (w *Worker) findMethod(t types.Type, name string) *ssa.Function {
	ms := w.prog.Prog.MethodSets.MethodSet(t)
	for i := 0; i < ms.Len(); i++ {
		if ms.At(i).Obj().Name() == name {
			return w.prog.Prog.MethodValue(ms.At(i))
		}
	}
	return nil
}

func (w *Worker) errorsAs(fr *frame, err, target iface, depth int) value {
	if err.t == nil {
		return false
	}
	if target.t == nil {
		panic(targetPanic{w.runtimeError("errors: target cannot be nil")})
	}
	pt, ok := target.t.Underlying().(*types.Pointer)
	tp, _ := target.v.(*value)
	if !ok || tp == nil {
		panic(targetPanic{w.runtimeError("errors: target must be a non-nil pointer")})
	}
	targetType := pt.Elem()
	_, isIface := targetType.Underlying().(*types.Interface)
	for {
		assignable := false
		if isIface {
			assignable = types.Implements(err.t, targetType.Underlying().(*types.Interface))
		} else {
			assignable = types.Identical(err.t, targetType)
		}
		if assignable {
			if isIface {
				w.store(targetType, tp, err)
			} else {
				w.store(targetType, tp, err.v)
			}
			return true
		}
		if m := w.findMethod(err.t, "As"); m != nil && m.Signature.Params().Len() == 1 && m.Signature.Results().Len() == 1 {
			if w.decide(w.call(fr, fr.g, m, []value{err.v, target}), "errors.As.method") {
				return true
			}
		}
		if m := w.findMethod(err.t, "Unwrap"); m != nil && m.Signature.Params().Len() == 0 && m.Signature.Results().Len() == 1 {
			r := w.call(fr, fr.g, m, []value{err.v})
			switch r := r.(type) {
			case iface:
				if r.t == nil {
					return false
				}
				err = r
				continue
			case []value:
				for _, e := range r {
					if e.(iface).t == nil {
						continue
					}
					if w.decide(w.errorsAs(fr, e.(iface), target, depth+1), "errors.As") {
						return true
					}
				}
				return false
			}
		}
		return false
	}
}

func timeFromStruct(t structure) time.Time {
	// only used for times without a monotonic reading: wall = nsec, ext = seconds since year 1
	wall := t[0].(uint64)
	ext := t[1].(int64)
	const unixToInternal = int64((1969*365 + 1969/4 - 1969/100 + 1969/400) * 86400)
	return time.Unix(ext-unixToInternal, int64(wall&(1<<30-1))).UTC()
}

func timeToStruct(tm time.Time, loc value) value {
	const unixToInternal = int64((1969*365 + 1969/4 - 1969/100 + 1969/400) * 86400)
	return structure{uint64(tm.Nanosecond()), tm.Unix() + unixToInternal, loc}
}

// deepCopyValue copies a value graph (pointers, slices, aggregates, interfaces); maps and channels are shared.
func deepCopyValue(v value, memo map[*value]*value) value {
	switch x := v.(type) {
	case *value:
		if x == nil {
			return x
		}
		if c, ok := memo[x]; ok {
			return c
		}
		n := new(value)
		memo[x] = n
		*n = deepCopyValue(*x, memo)
		return n
	case []value:
		if x == nil {
			return x
		}
		n := make([]value, len(x))
		for i := range x {
			n[i] = deepCopyValue(x[i], memo)
		}
		return n
	case structure:
		n := make(structure, len(x))
		for i := range x {
			n[i] = deepCopyValue(x[i], memo)
		}
		return n
	case array:
		n := make(array, len(x))
		for i := range x {
			n[i] = deepCopyValue(x[i], memo)
		}
		return n
	case iface:
		return iface{t: x.t, v: deepCopyValue(x.v, memo)}
	case *omap:
		if x == nil {
			return x
		}
		n := newOmap(x.keyType)
		for _, e := range x.entries {
			if e.deleted {
				continue
			}
			ne := &mentry{key: e.key, val: deepCopyValue(e.val, memo), symKey: e.symKey}
			n.entries = append(n.entries, ne)
			n.n++
			if e.symKey {
				n.nsym++
			} else {
				n.idx[mapKey(e.key)] = ne
			}
		}
		return n
	}
	return v
}

// isNilValue reports whether an unsafe.Pointer-typed cell holds nil in any of its representations.
func isNilValue(v value) bool {
	switch x := v.(type) {
	case nil:
		return true
	case unsafePtr:
		return x.p == nil
	case *value:
		return x == nil
	}
	return false
}
