package sx

import (
	"fmt"
	"go/token"
	"go/types"
	"runtime"
	"runtime/debug"
	"strings"

	"golang.org/x/tools/go/ssa"
)

type continuation int

const (
	kNext continuation = iota
	kReturn
	kJump
)

type deferred struct {
	fn    value
	args  []value
	instr *ssa.Defer
	tail  *deferred
}

type frame struct {
	w                *Worker
	g                *goroutine
	caller           *frame
	fn               *ssa.Function
	fi               *fnInfo
	block, prevBlock *ssa.BasicBlock
	env              []value
	locals           []value
	defers           *deferred
	result           value
	panicking        bool
	panic            interface{}
	phitemps         []value
	brCount          map[ssa.Instruction]int
	isPkgInit        bool
	depth            int
}

// DebugUnsupStack appends the interpreted call stack to every 'unsupported' reason (GOSMT_UNSUP_STACK=1).
var DebugUnsupStack bool

// enginePanic wraps an unexpected host panic with the stack at which it was first seen.
type enginePanic struct {
	v     interface{}
	stack string
}

// abortG unwinds a parked goroutine when the path is over.
type abortG struct{}

type undoRec struct {
	addr *value
	old  value
	m    *omap
	e    *mentry
	hk   interface{}
	kind uint8 // 0 store, 1 map set, 2 map insert, 3 map delete
}

// Worker owns one interpreter state and one solver process.
type Worker struct {
	curFn *ssa.Function // function of the frame being executed (debug output only)
	id     int
	prog   *Program
	ex     *Explorer
	tt     *TermTable
	solver *Solver

	// per path
	prefix        []Decision
	decs          []Decision
	dpos          int
	pc            []*Term
	probed        map[int32]bool
	choices       []uint64
	steps         int64
	nondetSeq     map[string]int
	opqSeq        int
	observed      []ObsRec
	events        []pathEvent
	reached       []string
	trace         []string
	expectPanic   bool
	lastClock     *Term
	fixedPos      int
	clockReadings []value
	boundCache    map[string]bool
	concCache     map[int32]uint64
	model         map[string]uint64 // a model of the current path condition, when known
	lastTimerDur  value

	// globals (persist across paths; stores are undo-logged)
	globals   map[*ssa.Global]*value
	initState map[*ssa.Package]int
	inInit    int
	undo      []undoRec
	initFail  map[string]string
	consts    map[*ssa.Const]value

	// scheduler
	sched scheduler

	fcount map[*fnInfo]*int64
	st     workerStats
}

type pathEvent struct {
	kind  string // ASSERT | REACH | OBS
	label string
	val   value
	typ   types.Type
}

func newWorker(prog *Program, ex *Explorer, id int) *Worker {
	w := &Worker{id: id, prog: prog, ex: ex}
	w.solver = NewSolver(ex.opt.Primary, ex.opt.Fallback, ex.opt.TimeoutMs)
	w.solver.HardTo = ex.opt.HardTo
	w.solver.Secondary = ex.opt.Secondary
	w.solver.QuickMs = ex.opt.QuickMs
	w.globals = map[*ssa.Global]*value{}
	w.initState = map[*ssa.Package]int{}
	w.initFail = map[string]string{}
	w.consts = map[*ssa.Const]value{}
	w.fcount = map[*fnInfo]*int64{}
	w.st.reach = map[string]int64{}
	w.st.unsup = map[string]int64{}
	w.st.cut = map[string]int64{}
	w.st.funcs = map[string]int64{}
	w.st.stubs = map[string]int64{}
	return w
}

func (w *Worker) close() {
	for fi, c := range w.fcount {
		if fi.inRepo && *c > 0 {
			w.st.funcs[fi.name] += *c
		}
	}
	w.solver.Close()
}

// ---------------------------------------------------------------------------------------------
// undo log

func (w *Worker) logStore(addr *value) {
	if w.inInit > 0 {
		return
	}
	w.undo = append(w.undo, undoRec{addr: addr, old: *addr})
}

func (w *Worker) logMapSet(m *omap, e *mentry, old value) {
	if w.inInit > 0 {
		return
	}
	w.undo = append(w.undo, undoRec{kind: 1, m: m, e: e, old: old})
}

func (w *Worker) logMapIns(m *omap, e *mentry, hk interface{}) {
	if w.inInit > 0 {
		return
	}
	w.undo = append(w.undo, undoRec{kind: 2, m: m, e: e, hk: hk})
}

func (w *Worker) logMapDel(m *omap, e *mentry, hk interface{}) {
	if w.inInit > 0 {
		return
	}
	w.undo = append(w.undo, undoRec{kind: 3, m: m, e: e, hk: hk})
}

func (w *Worker) rollback() {
	for i := len(w.undo) - 1; i >= 0; i-- {
		u := &w.undo[i]
		switch u.kind {
		case 0:
			*u.addr = u.old
		case 1:
			u.e.val = u.old
		case 2:
			// remove inserted entry (it is the last live insertion at this point)
			if u.e.symKey {
				u.m.nsym--
			} else {
				delete(u.m.idx, u.hk)
			}
			for j := len(u.m.entries) - 1; j >= 0; j-- {
				if u.m.entries[j] == u.e {
					u.m.entries = append(u.m.entries[:j], u.m.entries[j+1:]...)
					break
				}
			}
			if !u.e.deleted {
				u.m.n--
			}
		case 3:
			u.e.deleted = false
			if !u.e.symKey {
				u.m.idx[u.hk] = u.e
			}
			u.m.n++
		}
	}
	w.undo = w.undo[:0]
}

// ---------------------------------------------------------------------------------------------
// running one path

func (w *Worker) runPath(prefix []Decision) {
	w.prefix = prefix
	w.decs = w.decs[:0]
	w.dpos = 0
	w.pc = w.pc[:0]
	w.probed = map[int32]bool{}
	w.choices = nil
	w.steps = 0
	w.nondetSeq = map[string]int{}
	w.opqSeq = 0
	w.observed = nil
	w.events = nil
	w.reached = nil
	w.trace = nil
	w.expectPanic = false
	w.lastClock = nil
	w.fixedPos = 0
	w.clockReadings = nil
	w.boundCache = map[string]bool{}
	w.concCache = map[int32]uint64{}
	w.model = nil
	w.lastTimerDur = nil
	w.tt = NewTermTable()
	w.solver.Reset()
	w.sched.reset(w)

	entry := w.prog.Harness.Func(w.ex.opt.Entry)
	if entry == nil {
		panic("harness entry not found: " + w.ex.opt.Entry)
	}
	end := w.runMain(entry)
	w.sched.abortAll()
	w.rollback()

	if len(w.decs) > w.st.maxDepth {
		w.st.maxDepth = len(w.decs)
	}
	w.st.steps += w.steps
	switch end.kind {
	case "done", "violation-end":
		w.st.pathsDone++
		for _, r := range w.reached {
			w.st.reach[r]++
		}
		if end.kind == "done" {
			w.maybeSample(end.kind)
		}
	case "assume", "infeasible", "exhausted":
		w.st.pathsAssume++
	case "abort", "stopped":
		// the exploration was stopped (budget / grace period): the run reports that the bound was not exhausted
		w.st.pathsAssume++
	case "cut":
		w.st.pathsCut++
		w.st.cut[end.why]++
		for _, r := range w.reached {
			w.st.reach[r]++
		}
	case "unsupported":
		w.st.pathsUnsup++
		w.st.unsup[end.why]++
	default:
		w.st.pathsUnsup++
		w.st.unsup[end.kind+": "+end.why]++
	}
}

// runMain executes the harness entry as goroutine 0 on this host goroutine.
func (w *Worker) runMain(entry *ssa.Function) (end pathEnd) {
	g0 := w.sched.newG()
	w.sched.cur = g0
	defer func() {
		r := recover()
		if r == nil {
			return
		}
		end = w.classifyPanic(r, g0)
	}()
	w.call(nil, g0, entry, nil)
	// main returned: leak checks are up to the harness (vLiveGoroutines)
	return pathEnd{kind: "done"}
}

// classifyPanic turns a host panic that escaped a goroutine into a path end.
func (w *Worker) classifyPanic(r interface{}, g *goroutine) pathEnd {
	switch p := r.(type) {
	case pathEnd:
		return p
	case unsupported:
		return pathEnd{kind: "unsupported", why: p.why}
	case targetPanic:
		// an interpreted panic escaped the goroutine: program crash
		msg := w.panicString(p.v)
		if w.expectPanic {
			return pathEnd{kind: "done"}
		}
		w.reportViolation("panic", "uncaught-panic", msg, nil)
		return pathEnd{kind: "violation-end", why: "uncaught panic: " + msg}
	case enginePanic:
		return pathEnd{kind: "unsupported", why: fmt.Sprintf("engine: %v @ %s", p.v, firstEngineFrame(p.stack))}
	case abortG:
		return pathEnd{kind: "abort"}
	default:
		return pathEnd{kind: "unsupported", why: fmt.Sprintf("engine: %v", r)}
	}
}

func firstEngineFrame(stack string) string {
	lines := strings.Split(stack, "\n")
	for i, l := range lines {
		if strings.Contains(l, "verif/engine/sx.") && !strings.Contains(l, "runFrame") && !strings.Contains(l, "func1") {
			if i+1 < len(lines) {
				return strings.TrimSpace(l) + " " + strings.TrimSpace(lines[i+1])
			}
			return strings.TrimSpace(l)
		}
	}
	return ""
}

func (w *Worker) panicString(v value) string {
	if itf, ok := v.(iface); ok {
		if itf.t == nil {
			return "nil"
		}
		switch x := itf.v.(type) {
		case string:
			return itf.t.String() + ": " + x
		}
		// error values: try the Error method
		if m := w.prog.Prog.LookupMethod(itf.t, nil, "Error"); m != nil {
			func() {
				defer func() { recover() }()
				r := w.call(nil, w.sched.cur, m, []value{itf.v})
				if s, ok := r.(string); ok {
					v = s
				}
			}()
			if s, ok := v.(string); ok {
				return itf.t.String() + ": " + s
			}
		}
		return itf.t.String() + ": " + toString(itf.v)
	}
	return toString(v)
}

func (w *Worker) posString(pos token.Pos) string {
	if !pos.IsValid() {
		return "?"
	}
	p := w.prog.Prog.Fset.Position(pos)
	f := p.Filename
	if w.prog.RepoRoot != "" {
		f = strings.TrimPrefix(f, w.prog.RepoRoot+"/")
	}
	return fmt.Sprintf("%s:%d", f, p.Line)
}

// reportViolation records a counterexample for the current path. cond (may be nil) is the extra
// constraint under which the violation happens.
func (w *Worker) reportViolation(kind, label, msg string, cond *Term) {
	if w.ex.opt.StopAtFirst && w.ex.violationSeen(w.ex.opt.Unit, kind, label) {
		// already have a counterexample for this fingerprint; count it only
		w.ex.addViolation(&Violation{Unit: w.ex.opt.Unit, Kind: kind, Label: label})
		return
	}
	model, res := w.currentModel(cond)
	if res != Sat {
		// cannot produce a model: inconclusive
		w.st.unsup["no model for violation "+label]++
		return
	}
	v := &Violation{Unit: w.ex.opt.Unit, Kind: kind, Label: label, Msg: msg, Model: model,
		Decisions: append([]Decision{}, w.decs...), Choices: append([]uint64{}, w.choices...),
		Trace: append([]string{}, w.trace...)}
	v.Observed = w.concreteObserved(model)
	w.ex.addViolation(v)
}

func (w *Worker) concreteObserved(model map[string]uint64) []ObsRec {
	var out []ObsRec
	memo := map[int32]uint64{}
	for _, o := range w.observed {
		out = append(out, o)
		_ = memo
	}
	return out
}

func (w *Worker) maybeSample(end string) {
	every := w.ex.opt.SampleEvery
	if every <= 0 {
		every = 1
	}
	if (w.st.pathsDone-1)%int64(every) != 0 {
		return
	}
	if int(w.st.pathsDone/int64(every)) > w.ex.opt.MaxSamples {
		return
	}
	model, res := w.currentModel(nil)
	if res != Sat {
		return
	}
	s := &Sample{Decisions: decString(w.decs), Model: model, Choices: append([]uint64{}, w.choices...), End: end, Reach: append([]string{}, w.reached...)}
	memo := map[int32]uint64{}
	for _, e := range w.events {
		switch e.kind {
		case "ASSERT":
			holds := true
			switch c := e.val.(type) {
			case bool:
				holds = c
			case *Term:
				holds = c.Eval(model, memo) != 0
			}
			if holds {
				s.Events = append(s.Events, "ASSERT "+e.label+" ok")
			} else {
				s.Events = append(s.Events, "ASSERT "+e.label+" FAIL")
			}
		case "REACH":
			s.Events = append(s.Events, "REACH "+e.label)
		case "OBS":
			s.Events = append(s.Events, "OBS "+e.label+" "+evalToString(e.typ, e.val, model, memo))
		}
	}
	w.ex.addSample(s)
}

// evalToString renders a (possibly symbolic) scalar under a model the way fmt's %v prints it.
func evalToString(t types.Type, v value, model map[string]uint64, memo map[int32]uint64) string {
	switch x := v.(type) {
	case *Term:
		c := x.Eval(model, memo)
		if t != nil {
			if _, ok := t.Underlying().(*types.Basic); ok {
				return fmt.Sprint(fromBits(t, c))
			}
		}
		return fmt.Sprint(c)
	case *symStr:
		bs := make([]byte, len(x.b))
		for i, b := range x.b {
			switch b := b.(type) {
			case uint8:
				bs[i] = b
			case *Term:
				bs[i] = byte(b.Eval(model, memo))
			}
		}
		return string(bs)
	case iface:
		return evalToString(x.t, x.v, model, memo)
	case bool, int, int8, int16, int32, int64, uint, uint8, uint16, uint32, uint64, uintptr, float32, float64, string:
		return fmt.Sprint(x)
	}
	return "?"
}

func (w *Worker) evalObserved(model map[string]uint64) []ObsRec {
	return append([]ObsRec{}, w.observed...)
}

// ---------------------------------------------------------------------------------------------
// frames

func (fr *frame) get(key ssa.Value) value {
	switch key := key.(type) {
	case nil:
		return nil
	case *ssa.Function, *ssa.Builtin:
		return key
	case *ssa.Const:
		return fr.w.constVal(key)
	case *ssa.Global:
		return fr.w.globalAddr(key)
	}
	if r, ok := fr.fi.regs[key]; ok {
		return fr.env[r]
	}
	panic(fmt.Sprintf("get: no value for %T: %v", key, key.Name()))
}

func (fr *frame) set(key ssa.Value, v value) {
	fr.env[fr.fi.regs[key]] = v
}

func (w *Worker) constVal(c *ssa.Const) value {
	if v, ok := w.consts[c]; ok {
		return v
	}
	v := constValue(c)
	switch v.(type) {
	case structure, array, tuple:
		return v // fresh aggregate each time
	}
	w.consts[c] = v
	return v
}

func (w *Worker) globalAddr(g *ssa.Global) *value {
	if a, ok := w.globals[g]; ok {
		if pkg := g.Pkg; pkg != nil && w.initState[pkg] == 0 {
			w.ensureInit(pkg)
		}
		return a
	}
	cell := zero(deref(g.Type()))
	a := &cell
	w.globals[g] = a
	if pkg := g.Pkg; pkg != nil && w.initState[pkg] == 0 {
		w.ensureInit(pkg)
	}
	return a
}

// ensureInit runs the package initializer of pkg concretely, once per worker, on first touch.
func (w *Worker) ensureInit(pkg *ssa.Package) {
	if w.initState[pkg] != 0 {
		return
	}
	w.initState[pkg] = 1
	init := pkg.Func("init")
	if init == nil || init.Blocks == nil {
		w.initState[pkg] = 2
		return
	}
	// the init$guard global must read as false
	w.inInit++
	savedCur := w.sched.cur
	defer func() {
		w.inInit--
		w.sched.cur = savedCur
		w.initState[pkg] = 2
		if r := recover(); r != nil {
			switch r.(type) {
			case pathEnd, abortG:
				panic(r)
			}
			w.initFail[pkg.Pkg.Path()] = fmt.Sprintf("%v", r)
		}
	}()
	g := savedCur
	if g == nil {
		g = &goroutine{id: -1}
	}
	fr := w.newFrame(nil, g, init)
	fr.isPkgInit = true
	fr.block = init.Blocks[0]
	for fr.block != nil {
		w.runFrame(fr)
	}
}

func (w *Worker) newFrame(caller *frame, g *goroutine, fn *ssa.Function) *frame {
	fi := w.prog.info(fn)
	fr := &frame{w: w, g: g, caller: caller, fn: fn, fi: fi}
	if caller != nil {
		fr.depth = caller.depth + 1
		if fr.depth > 2000 {
			panic(unsupported{"call depth exceeds 2000 (runaway recursion?)"})
		}
	}
	fr.env = make([]value, fi.nregs)
	fr.locals = make([]value, len(fn.Locals))
	for i, l := range fn.Locals {
		fr.locals[i] = zero(deref(l.Type()))
		fr.env[fi.regs[l]] = &fr.locals[i]
	}
	return fr
}

// call interprets a call to a function value fn with arguments args.
func (w *Worker) call(caller *frame, g *goroutine, fn value, args []value) value {
	switch fn := fn.(type) {
	case *ssa.Function:
		if fn == nil {
			panic(targetPanic{w.runtimeError("invalid memory address or nil pointer dereference (call of nil func)")})
		}
		return w.callSSA(caller, g, fn, args, nil)
	case *closure:
		if fn == nil {
			panic(targetPanic{w.runtimeError("invalid memory address or nil pointer dereference (call of nil func)")})
		}
		return w.callSSA(caller, g, fn.Fn, args, fn.Env)
	case *ssa.Builtin:
		return w.callBuiltin(caller, fn, args)
	case poison:
		panic(unsupported{"call of poisoned function value: " + fn.why})
	}
	panic(unsupported{fmt.Sprintf("cannot call %T", fn)})
}

func (w *Worker) callSSA(caller *frame, g *goroutine, fn *ssa.Function, args []value, env []value) value {
	fi := w.prog.info(fn)
	if fi.intercept != nil {
		w.st.stubs[fi.name]++
		cf := caller
		if cf == nil {
			cf = &frame{w: w, g: g, fn: fn, fi: fi}
		}
		return fi.intercept(w, cf, fn, args)
	}
	if fn.Blocks == nil {
		panic(unsupported{"no code for function: " + fi.name})
	}
	if fn.TypeParams().Len() > 0 && len(fn.TypeArgs()) == 0 {
		panic(unsupported{"uninstantiated generic function: " + fi.name})
	}
	fr := w.newFrame(caller, g, fn)
	for i, p := range fn.Params {
		fr.env[fi.regs[p]] = args[i]
	}
	for i, fv := range fn.FreeVars {
		fr.env[fi.regs[fv]] = env[i]
	}
	fr.block = fn.Blocks[0]
	for fr.block != nil {
		w.runFrame(fr)
	}
	for i := range fr.locals {
		fr.locals[i] = bad{}
	}
	return fr.result
}

// runFrame executes SSA instructions starting at fr.block and continuing until a return, a
// panic, or a recovered panic (see x/tools/go/ssa/interp).
func (w *Worker) runFrame(fr *frame) {
	defer func() {
		if fr.block == nil {
			return // normal return
		}
		r := recover()
		switch p := r.(type) {
		case targetPanic:
			fr.panicking = true
			fr.panic = p
			fr.runDefers()
			fr.block = fr.fn.Recover
			if fr.block == nil {
				// no named results: return zero values
				fr.result = zero(fr.fn.Signature.Results())
				if fr.fn.Signature.Results().Len() == 0 {
					fr.result = nil
				}
			}
		case unsupported:
			if DebugUnsupStack && !strings.Contains(p.why, " @@ ") {
				st := ""
				for f, k := fr, 0; f != nil && k < 12; f, k = f.caller, k+1 {
					st += " <- " + f.fn.String()
				}
				p.why += " @@ " + st
			}
			panic(p)
		case pathEnd, abortG, enginePanic:
			panic(r)
		case runtime.Error:
			panic(enginePanic{v: p.Error(), stack: string(debug.Stack())})
		default:
			panic(enginePanic{v: r, stack: string(debug.Stack())})
		}
	}()

	w.curFn = fr.fn
	var cnt *int64
	if c, ok := w.fcount[fr.fi]; ok {
		cnt = c
	} else {
		cnt = new(int64)
		w.fcount[fr.fi] = cnt
	}
	for {
		nonPhis := fr.executePhis()
		n := int64(len(nonPhis))
		*cnt += n
		w.steps += n
		if w.steps > w.ex.opt.MaxSteps && w.inInit == 0 {
			if w.ex.opt.NonTermViolation {
				w.reportViolation("unwind", "termination", "instruction budget exhausted (no progress?)", nil)
				w.endPath("violation-end", "instruction budget")
			}
			w.endPath("cut", "instruction budget exhausted in "+fr.fi.name)
		}
		for _, instr := range nonPhis {
			var k continuation
			if fr.isPkgInit {
				k = w.visitInitInstr(fr, instr)
			} else {
				k = w.visitInstr(fr, instr)
			}
			if k == kReturn {
				return
			}
			if k == kJump {
				break
			}
		}
	}
}

// visitInitInstr executes one instruction of a package initializer, poisoning on failure.
func (w *Worker) visitInitInstr(fr *frame, instr ssa.Instruction) (k continuation) {
	// calls to other packages' initializers are skipped: they run on first touch
	if c, ok := instr.(*ssa.Call); ok {
		if f, ok := c.Call.Value.(*ssa.Function); ok && f.Name() == "init" && f.Synthetic != "" && f.Pkg != fr.fn.Pkg {
			fr.set(c, nil)
			return kNext
		}
	}
	defer func() {
		if r := recover(); r != nil {
			switch p := r.(type) {
			case pathEnd, abortG:
				panic(r)
			default:
				why := fmt.Sprintf("%v", p)
				if ep, ok := r.(enginePanic); ok {
					why = fmt.Sprintf("%v", ep.v)
				}
				if tp, ok := r.(targetPanic); ok {
					why = "panic during init: " + toString(tp.v)
				}
				w.initFail[fr.fn.Pkg.Pkg.Path()+"@"+w.posString(instr.Pos())] = why
				if v, ok := instr.(ssa.Value); ok {
					fr.set(v, poison{why: why})
				}
				switch instr.(type) {
				case *ssa.If, *ssa.Jump, *ssa.Return, *ssa.Panic:
					// control flow broken: abandon the rest of this initializer
					fr.block = nil
					k = kReturn
				default:
					k = kNext
				}
			}
		}
	}()
	return w.visitInstr(fr, instr)
}

func (fr *frame) executePhis() []ssa.Instruction {
	firstNonPhi := -1
	for i, instr := range fr.block.Instrs {
		if _, ok := instr.(*ssa.Phi); !ok {
			firstNonPhi = i
			break
		}
	}
	nonPhis := fr.block.Instrs[firstNonPhi:]
	if firstNonPhi > 0 {
		phis := fr.block.Instrs[:firstNonPhi]
		predIndex := -1
		for i, p := range fr.block.Preds {
			if p == fr.prevBlock {
				predIndex = i
				break
			}
		}
		fr.phitemps = fr.phitemps[:0]
		for _, phi := range phis {
			phi := phi.(*ssa.Phi)
			fr.phitemps = append(fr.phitemps, fr.get(phi.Edges[predIndex]))
		}
		for i, phi := range phis {
			fr.set(phi.(*ssa.Phi), fr.phitemps[i])
		}
	}
	return nonPhis
}

// runDefer runs a deferred call d. It always returns normally, but may set or clear fr.panic.
func (fr *frame) runDefer(d *deferred) {
	var ok bool
	defer func() {
		if !ok {
			r := recover()
			switch r.(type) {
			case targetPanic:
				fr.panicking = true
				fr.panic = r
			default:
				panic(r) // engine control flow: propagate
			}
		}
	}()
	fr.w.call(fr, fr.g, d.fn, d.args)
	ok = true
}

func (fr *frame) runDefers() {
	for d := fr.defers; d != nil; d = d.tail {
		fr.runDefer(d)
	}
	fr.defers = nil
	if fr.panicking {
		panic(fr.panic) // new panic, or still panicking
	}
}

// doRecover implements the recover() built-in.
func doRecover(caller *frame) value {
	if caller != nil && !caller.panicking && caller.caller != nil && caller.caller.panicking {
		caller.caller.panicking = false
		p := caller.caller.panic
		caller.caller.panic = nil
		switch p := p.(type) {
		case targetPanic:
			return p.v
		default:
			panic(fmt.Sprintf("unexpected panic type %T in target call to recover()", p))
		}
	}
	return iface{}
}

// prepareCall determines the function value and argument values for a call.
func (w *Worker) prepareCall(fr *frame, call *ssa.CallCommon) (fn value, args []value) {
	v := fr.get(call.Value)
	if call.Method == nil {
		fn = v
	} else {
		recv, ok := v.(iface)
		if !ok {
			panic(unsupported{fmt.Sprintf("invoke on %T", v)})
		}
		if recv.t == nil {
			panic(targetPanic{w.runtimeError("invalid memory address or nil pointer dereference (method call on nil interface)")})
		}
		f := w.prog.Prog.LookupMethod(recv.t, call.Method.Pkg(), call.Method.Name())
		if f == nil {
			panic(unsupported{fmt.Sprintf("method set for dynamic type %v does not contain %s", recv.t, call.Method)})
		}
		fn = f
		args = append(args, recv.v)
	}
	for _, arg := range call.Args {
		args = append(args, fr.get(arg))
	}
	return
}

func (w *Worker) nilDeref() {
	panic(targetPanic{w.runtimeError("invalid memory address or nil pointer dereference")})
}

// concInt concretises an integer value (forking over feasible values when symbolic).
func (w *Worker) concInt(v value, tag string) int64 {
	if t, ok := v.(*Term); ok {
		c := w.concretize(t, tag)
		return sext(c, t.W) // callers pass ints (signed) or lengths
	}
	return asInt64(v)
}

func (w *Worker) concUint(v value, tag string) uint64 {
	if t, ok := v.(*Term); ok {
		return w.concretize(t, tag)
	}
	b, ok := bitsOf(v)
	if !ok {
		panic(unsupported{fmt.Sprintf("concUint %T", v)})
	}
	return b
}

// checkIndex decides 0 <= idx < n for a possibly symbolic idx and returns a concrete index.
func (w *Worker) checkIndex(idx value, idxType types.Type, n int, what string) int {
	if t, ok := idx.(*Term); ok {
		_, signed, _ := intInfo(idxType)
		var inRange *Term
		inRange = w.indexInRange(t, signed, n)
		if !w.decide(lower(types.Typ[types.Bool], inRange), "bounds:"+what) {
			panic(targetPanic{w.runtimeError(fmt.Sprintf("index out of range [sym] with length %d", n))})
		}
		return int(w.concretize(t, "index:"+what))
	}
	i := asInt64(idx)
	if u, ok := idx.(uint64); ok && u > uint64(1<<62) {
		i = -1
	}
	if i < 0 || i >= int64(n) {
		panic(targetPanic{w.runtimeError(fmt.Sprintf("index out of range [%d] with length %d", i, n))})
	}
	return int(i)
}

// loadOnlyInBlock reports whether the element address computed by instr is used only by loads in
// instr's own block (so no store can intervene between computing the address and reading through it).
func loadOnlyInBlock(instr *ssa.IndexAddr) bool {
	refs := instr.Referrers()
	if refs == nil || len(*refs) == 0 {
		return false
	}
	for _, r := range *refs {
		u, ok := r.(*ssa.UnOp)
		if !ok || u.Op != token.MUL || u.Block() != instr.Block() {
			return false
		}
	}
	// no store between the address computation and the last load
	seen := false
	for _, in := range instr.Block().Instrs {
		if in == ssa.Instruction(instr) {
			seen = true
			continue
		}
		if !seen {
			continue
		}
		switch in.(type) {
		case *ssa.Store, *ssa.Call, *ssa.MapUpdate, *ssa.Send, *ssa.Go, *ssa.Defer:
			// a store (or anything that may store) after the address was taken: only safe once every load is behind us
			for _, r := range *refs {
				if !before(instr.Block(), r.(*ssa.UnOp), in) {
					return false
				}
			}
		}
	}
	return true
}

func before(b *ssa.BasicBlock, a, c ssa.Instruction) bool {
	for _, in := range b.Instrs {
		if in == a {
			return true
		}
		if in == c {
			return false
		}
	}
	return false
}

// indexInRange is the bounds obligation 0 <= t < n for an index term of t's own width.  When n does
// not fit in that width (a byte indexing a 256-entry table) the upper bound holds for every value;
// building the constant n in t's width would wrap it (256 -> 0 in 8 bits) and make the check fail.
func (w *Worker) indexInRange(t *Term, signed bool, n int) *Term {
	if signed {
		nonNeg := w.tt.Cmp(OpSLe, w.tt.Const(t.W, 0), t)
		if t.W < 64 && uint64(n) > uint64(1)<<(uint(t.W)-1)-1 {
			return nonNeg
		}
		return w.tt.And(nonNeg, w.tt.Cmp(OpSLt, t, w.tt.Const(t.W, uint64(n))))
	}
	if t.W < 64 && uint64(n) >= uint64(1)<<uint(t.W) {
		return w.tt.Cmp(OpULe, t, t) // true
	}
	return w.tt.Cmp(OpULt, t, w.tt.Const(t.W, uint64(n)))
}

func isSymbolic(v value) bool {
	switch v := v.(type) {
	case *Term, *symStr, *opqStr:
		return true
	case structure:
		for _, f := range v {
			if isSymbolic(f) {
				return true
			}
		}
	case array:
		for _, f := range v {
			if isSymbolic(f) {
				return true
			}
		}
	case iface:
		return isSymbolic(v.v)
	}
	return false
}

// mapFind locates the entry for key k, deciding equalities with symbolic keys as needed.
func (w *Worker) mapFind(m *omap, k value) *mentry {
	if m == nil {
		return nil
	}
	if !isSymbolic(k) {
		if e, ok := m.idx[mapKey(k)]; ok {
			return e
		}
		if m.nsym == 0 {
			return nil
		}
		for _, e := range m.entries {
			if e.deleted || !e.symKey {
				continue
			}
			if w.decide(w.eqv(m.keyType, k, e.key), "mapkey") {
				return e
			}
		}
		return nil
	}
	for _, e := range m.entries {
		if e.deleted {
			continue
		}
		if w.decide(w.eqv(m.keyType, k, e.key), "mapkey") {
			return e
		}
	}
	return nil
}

func (w *Worker) mapInsert(m *omap, k, v value) {
	if e := w.mapFind(m, k); e != nil {
		w.logMapSet(m, e, e.val)
		e.val = v
		return
	}
	if isSymbolic(k) {
		e := &mentry{key: k, val: v, symKey: true}
		m.entries = append(m.entries, e)
		m.n++
		m.nsym++
		w.logMapIns(m, e, nil)
		return
	}
	hk := mapKey(k)
	e := &mentry{key: k, val: v}
	m.idx[hk] = e
	m.entries = append(m.entries, e)
	m.n++
	w.logMapIns(m, e, hk)
}

func (w *Worker) mapDelete(m *omap, k value) {
	e := w.mapFind(m, k)
	if e == nil {
		return
	}
	e.deleted = true
	m.n--
	var hk interface{}
	if !e.symKey {
		hk = mapKey(e.key)
		delete(m.idx, hk)
	}
	w.logMapDel(m, e, hk)
}

// visitInstr interprets a single ssa.Instruction within the activation record frame.
func (w *Worker) visitInstr(fr *frame, instr ssa.Instruction) continuation {
	switch instr := instr.(type) {
	case *ssa.DebugRef:
		// no-op

	case *ssa.UnOp:
		if instr.Op == token.ARROW {
			fr.set(instr, w.chanRecv(fr, instr, fr.get(instr.X)))
		} else {
			fr.set(instr, w.unop(instr, fr.get(instr.X)))
		}

	case *ssa.BinOp:
		fr.set(instr, w.binop(instr.Op, instr.X.Type(), fr.get(instr.X), fr.get(instr.Y)))

	case *ssa.Call:
		fn, args := w.prepareCall(fr, &instr.Call)
		fr.set(instr, w.call(fr, fr.g, fn, args))

	case *ssa.ChangeInterface:
		fr.set(instr, fr.get(instr.X))

	case *ssa.ChangeType:
		fr.set(instr, fr.get(instr.X))

	case *ssa.Convert:
		fr.set(instr, w.conv(instr.Type(), instr.X.Type(), fr.get(instr.X)))

	case *ssa.MultiConvert:
		fr.set(instr, w.conv(instr.Type(), instr.X.Type(), fr.get(instr.X)))

	case *ssa.SliceToArrayPointer:
		fr.set(instr, w.sliceToArrayPointer(instr.Type(), instr.X.Type(), fr.get(instr.X)))

	case *ssa.MakeInterface:
		fr.set(instr, iface{t: instr.X.Type(), v: fr.get(instr.X)})

	case *ssa.Extract:
		t, ok := fr.get(instr.Tuple).(tuple)
		if !ok {
			panic(unsupported{fmt.Sprintf("extract from %T", fr.get(instr.Tuple))})
		}
		fr.set(instr, t[instr.Index])

	case *ssa.Slice:
		fr.set(instr, w.slice(instr, fr.get(instr.X), fr.get(instr.Low), fr.get(instr.High), fr.get(instr.Max)))

	case *ssa.Return:
		switch len(instr.Results) {
		case 0:
		case 1:
			fr.result = fr.get(instr.Results[0])
		default:
			res := make([]value, 0, len(instr.Results))
			for _, r := range instr.Results {
				res = append(res, fr.get(r))
			}
			fr.result = tuple(res)
		}
		fr.block = nil
		return kReturn

	case *ssa.RunDefers:
		fr.runDefers()

	case *ssa.Panic:
		panic(targetPanic{fr.get(instr.X)})

	case *ssa.Send:
		w.chanSend(fr, fr.get(instr.Chan), fr.get(instr.X))

	case *ssa.Store:
		addr, ok := fr.get(instr.Addr).(*value)
		if !ok {
			panic(unsupported{fmt.Sprintf("store through %T", fr.get(instr.Addr))})
		}
		if addr == nil {
			w.nilDeref()
		}
		w.store(deref(instr.Addr.Type()), addr, fr.get(instr.Val))

	case *ssa.If:
		c := fr.get(instr.Cond)
		var taken bool
		switch c := c.(type) {
		case bool:
			taken = c
		case *Term:
			if fr.brCount == nil {
				fr.brCount = map[ssa.Instruction]int{}
			}
			fr.brCount[instr]++
			if fr.brCount[instr] > w.ex.opt.Unwind {
				if w.ex.opt.NonTermViolation {
					w.reportViolation("unwind", "termination/"+shortFn(fr.fi.name), "loop exceeds the unwinding bound "+fmt.Sprint(w.ex.opt.Unwind)+" at "+w.posString(instr.Cond.Pos()), nil)
					w.endPath("violation-end", "unwinding bound")
				}
				w.endPath("cut", "unwinding bound at "+w.posString(instr.Cond.Pos())+" in "+fr.fi.name)
			}
			taken = w.decideTerm(c, "")
		default:
			panic(unsupported{fmt.Sprintf("branch on %T", c)})
		}
		succ := 1
		if taken {
			succ = 0
		}
		fr.prevBlock, fr.block = fr.block, fr.block.Succs[succ]
		return kJump

	case *ssa.Jump:
		fr.prevBlock, fr.block = fr.block, fr.block.Succs[0]
		return kJump

	case *ssa.Defer:
		fn, args := w.prepareCall(fr, &instr.Call)
		defers := &fr.defers
		if into := fr.get(instr.DeferStack); into != nil {
			defers = into.(**deferred)
		}
		*defers = &deferred{fn: fn, args: args, instr: instr, tail: *defers}

	case *ssa.Go:
		fn, args := w.prepareCall(fr, &instr.Call)
		w.spawn(fr, fn, args)

	case *ssa.MakeChan:
		n := w.concInt(fr.get(instr.Size), "makechan")
		if n < 0 {
			panic(targetPanic{w.runtimeError("makechan: size out of range")})
		}
		fr.set(instr, w.newChan(int(n), instr.Type().Underlying().(*types.Chan).Elem()))

	case *ssa.Alloc:
		var addr *value
		if instr.Heap {
			addr = new(value)
			fr.set(instr, addr)
		} else {
			addr = fr.get(instr).(*value)
		}
		*addr = zero(deref(instr.Type()))

	case *ssa.MakeSlice:
		lenv, capv := fr.get(instr.Len), fr.get(instr.Cap)
		n := w.concInt(lenv, "makeslice-len")
		c := n
		if instr.Cap != instr.Len {
			c = w.concInt(capv, "makeslice-cap")
		}
		if n < 0 || n > 1<<32 {
			panic(targetPanic{w.runtimeError("makeslice: len out of range")})
		}
		if c < n || c > 1<<32 {
			panic(targetPanic{w.runtimeError("makeslice: cap out of range")})
		}
		if c > 1<<22 {
			panic(unsupported{fmt.Sprintf("makeslice of %d elements", c)})
		}
		slice := make([]value, c)
		tElt := instr.Type().Underlying().(*types.Slice).Elem()
		for i := range slice {
			slice[i] = zero(tElt)
		}
		fr.set(instr, slice[:n])

	case *ssa.MakeMap:
		fr.set(instr, newOmap(instr.Type().Underlying().(*types.Map).Key()))

	case *ssa.Range:
		fr.set(instr, w.rangeIter(fr.get(instr.X), instr.X.Type()))

	case *ssa.Next:
		fr.set(instr, fr.get(instr.Iter).(iter).next())

	case *ssa.FieldAddr:
		p, ok := fr.get(instr.X).(*value)
		if !ok {
			panic(unsupported{fmt.Sprintf("FieldAddr of %T", fr.get(instr.X))})
		}
		if p == nil {
			w.nilDeref()
		}
		s, ok := (*p).(structure)
		if !ok {
			panic(unsupported{fmt.Sprintf("FieldAddr: cell holds %T (%s)", *p, toString(*p))})
		}
		fr.set(instr, &s[instr.Field])

	case *ssa.Field:
		s, ok := fr.get(instr.X).(structure)
		if !ok {
			panic(unsupported{fmt.Sprintf("Field of %T", fr.get(instr.X))})
		}
		fr.set(instr, s[instr.Field])

	case *ssa.IndexAddr:
		x := fr.get(instr.X)
		idx := fr.get(instr.Index)
		if _, sym := idx.(*Term); sym && loadOnlyInBlock(instr) {
			// table[symbolic index] read through an element address that is only loaded from, in this
			// block: read the element as an ite over the table instead of forking over every index
			var elems []value
			switch x := x.(type) {
			case []value:
				elems = x
			case *value:
				if x == nil {
					w.nilDeref()
				}
				if a, ok := (*x).(array); ok {
					elems = []value(a)
				}
			}
			if elems != nil && len(elems) <= 256 {
				elemType := instr.Type().Underlying().(*types.Pointer).Elem()
				if _, _, isInt := intInfo(elemType); isInt {
					cell := w.indexRead(elems, idx, instr.Index.Type(), elemType)
					fr.set(instr, &cell)
					break
				}
			}
		}
		switch x := x.(type) {
		case []value:
			i := w.checkIndex(idx, instr.Index.Type(), len(x), "slice")
			fr.set(instr, &x[i])
		case *value: // *array
			if x == nil {
				w.nilDeref()
			}
			a := (*x).(array)
			i := w.checkIndex(idx, instr.Index.Type(), len(a), "array")
			fr.set(instr, &a[i])
		default:
			panic(unsupported{fmt.Sprintf("unexpected x type in IndexAddr: %T", x)})
		}

	case *ssa.Index:
		x := fr.get(instr.X)
		idx := fr.get(instr.Index)
		switch x := x.(type) {
		case array:
			fr.set(instr, w.indexRead([]value(x), idx, instr.Index.Type(), instr.Type()))
		case string:
			if _, sym := idx.(*Term); !sym {
				i := w.checkIndex(idx, instr.Index.Type(), len(x), "string")
				fr.set(instr, x[i])
			} else {
				fr.set(instr, w.indexRead(strBytes(x), idx, instr.Index.Type(), instr.Type()))
			}
		case *symStr:
			fr.set(instr, w.indexRead(x.b, idx, instr.Index.Type(), instr.Type()))
		case *opqStr:
			panic(unsupported{"index into opaque string"})
		default:
			panic(unsupported{fmt.Sprintf("unexpected x type in Index: %T", x)})
		}

	case *ssa.Lookup:
		fr.set(instr, w.lookup(instr, fr.get(instr.X), fr.get(instr.Index)))

	case *ssa.MapUpdate:
		m, ok := fr.get(instr.Map).(*omap)
		if !ok {
			panic(unsupported{fmt.Sprintf("illegal map type: %T", fr.get(instr.Map))})
		}
		if m == nil {
			panic(targetPanic{w.runtimeError("assignment to entry in nil map")})
		}
		w.mapInsert(m, fr.get(instr.Key), copyVal(fr.get(instr.Value)))

	case *ssa.TypeAssert:
		x, ok := fr.get(instr.X).(iface)
		if !ok {
			panic(unsupported{fmt.Sprintf("type assert on %T", fr.get(instr.X))})
		}
		fr.set(instr, w.typeAssert(instr, x))

	case *ssa.MakeClosure:
		bindings := make([]value, 0, len(instr.Bindings))
		for _, binding := range instr.Bindings {
			bindings = append(bindings, fr.get(binding))
		}
		fr.set(instr, &closure{instr.Fn.(*ssa.Function), bindings})

	case *ssa.Phi:
		panic("unreachable: phi")

	case *ssa.Select:
		fr.set(instr, w.selectOp(fr, instr))

	default:
		panic(unsupported{fmt.Sprintf("unexpected instruction: %T", instr)})
	}
	return kNext
}

// indexRead reads elems[idx] (by value); a symbolic index becomes an ite-chain for scalars.
func (w *Worker) indexRead(elems []value, idx value, idxType, elemType types.Type) value {
	t, sym := idx.(*Term)
	if !sym {
		return elems[w.checkIndex(idx, idxType, len(elems), "index")]
	}
	wd, _, isInt := intInfo(elemType)
	if !isInt || len(elems) > 256 {
		return elems[w.checkIndex(idx, idxType, len(elems), "index")]
	}
	// bounds obligation
	_, signed, _ := intInfo(idxType)
	var inRange *Term
	n := len(elems)
	inRange = w.indexInRange(t, signed, n)
	if !w.decide(lower(types.Typ[types.Bool], inRange), "bounds:index") {
		panic(targetPanic{w.runtimeError(fmt.Sprintf("index out of range [sym] with length %d", n))})
	}
	// lookup tables are mostly one filler value (base64 / hex decode maps): start from the most frequent
	// concrete entry and add a case only for the entries that differ from it
	base, freq := -1, map[interface{}]int{}
	for i, e := range elems {
		if _, sym := e.(*Term); sym {
			continue
		}
		k := mapKey(e)
		freq[k]++
		if base < 0 || freq[k] > freq[mapKey(elems[base])] {
			base = i
		}
	}
	if base < 0 {
		base = n - 1
	}
	acc := w.lift(elems[base], wd)
	for i := n - 1; i >= 0; i-- {
		if i == base {
			continue
		}
		if _, sym := elems[i].(*Term); !sym && mapKey(elems[i]) == mapKey(elems[base]) {
			continue
		}
		acc = w.tt.Ite(w.tt.Eq(t, w.tt.Const(t.W, uint64(i))), w.lift(elems[i], wd), acc)
	}
	return lower(elemType, acc)
}

func (w *Worker) lookup(instr *ssa.Lookup, x, idx value) value {
	switch x := x.(type) {
	case *omap:
		var v value
		e := w.mapFind(x, idx)
		ok := e != nil
		if ok {
			v = copyVal(e.val)
		} else {
			v = zero(instr.X.Type().Underlying().(*types.Map).Elem())
		}
		if instr.CommaOk {
			v = tuple{v, ok}
		}
		return v
	}
	panic(unsupported{fmt.Sprintf("unexpected x type in Lookup: %T", x)})
}

// slice returns x[lo:hi:max].
func (w *Worker) slice(instr *ssa.Slice, x, lo, hi, max value) value {
	var Len, Cap int
	switch x := x.(type) {
	case string:
		Len = len(x)
		Cap = Len
	case *symStr:
		Len = len(x.b)
		Cap = Len
	case *opqStr:
		panic(unsupported{"slicing of opaque string"})
	case []value:
		Len = len(x)
		Cap = cap(x)
	case *value: // *array
		if x == nil {
			w.nilDeref()
		}
		a := (*x).(array)
		Len = len(a)
		Cap = cap(a)
	default:
		panic(unsupported{fmt.Sprintf("slice: unexpected X type: %T", x)})
	}
	l := int64(0)
	if lo != nil {
		l = w.concInt(lo, "slice-lo")
	}
	h := int64(Len)
	if hi != nil {
		h = w.concInt(hi, "slice-hi")
	}
	m := int64(Cap)
	if max != nil {
		m = w.concInt(max, "slice-max")
	}
	if l < 0 || h < l || m < h || m > int64(Cap) {
		panic(targetPanic{w.runtimeError(fmt.Sprintf("slice bounds out of range [%d:%d:%d] with capacity %d", l, h, m, Cap))})
	}
	switch x := x.(type) {
	case string:
		return x[l:h]
	case *symStr:
		return normStr(x.b[l:h:h])
	case []value:
		if x == nil {
			return x
		}
		return x[l:h:m]
	case *value:
		a := (*x).(array)
		return []value(a)[l:h:m]
	}
	panic("unreachable")
}

func (w *Worker) rangeIter(x value, t types.Type) iter {
	switch x := x.(type) {
	case *omap:
		return &omapIter{m: x}
	case string:
		return &stringIter{s: x}
	case *symStr:
		// ranging decodes UTF-8: concretise every byte
		bs := make([]byte, len(x.b))
		for i, b := range x.b {
			bs[i] = byte(w.concUint(b, "range-string-byte"))
		}
		return &stringIter{s: string(bs)}
	}
	panic(unsupported{fmt.Sprintf("cannot range over %T", x)})
}

// callBuiltin interprets a call to builtin fn with arguments args.
func (w *Worker) callBuiltin(caller *frame, fn *ssa.Builtin, args []value) value {
	switch fn.Name() {
	case "append":
		if len(args) == 1 {
			return args[0]
		}
		arg0 := args[0].([]value)
		var add []value
		switch s := args[1].(type) {
		case string:
			add = strBytes(s)
		case *symStr:
			add = s.b
		case []value:
			add = s
		case *opqStr:
			panic(unsupported{"append of opaque string bytes"})
		default:
			panic(unsupported{fmt.Sprintf("append %T", s)})
		}
		if len(add) == 0 {
			return arg0
		}
		// in-place writes into spare capacity must be undo-logged
		if len(arg0)+len(add) <= cap(arg0) {
			ext := arg0[len(arg0) : len(arg0)+len(add)]
			for i := range ext {
				w.logStore(&ext[i])
			}
		}
		grown := len(arg0)+len(add) > cap(arg0)
		for _, e := range add {
			arg0 = append(arg0, copyVal(e))
		}
		if grown && cap(arg0) > len(arg0) {
			// the spare capacity of a freshly grown backing array holds zero values of the element type
			// (re-slicing up to cap must not expose untyped nils)
			if sl, ok := fn.Type().(*types.Signature).Params().At(0).Type().Underlying().(*types.Slice); ok {
				spare := arg0[len(arg0):cap(arg0)]
				for i := range spare {
					spare[i] = zero(sl.Elem())
				}
			}
		}
		return arg0

	case "copy":
		dst := args[0].([]value)
		var src []value
		switch s := args[1].(type) {
		case string:
			src = strBytes(s)
		case *symStr:
			src = s.b
		case []value:
			src = s
		default:
			panic(unsupported{fmt.Sprintf("copy from %T", s)})
		}
		n := len(dst)
		if len(src) < n {
			n = len(src)
		}
		for i := 0; i < n; i++ {
			w.logStore(&dst[i])
		}
		// overlapping copy semantic: host copy handles memmove on interface slots; aggregates are
		// copied by value afterwards
		tmp := make([]value, n)
		for i := 0; i < n; i++ {
			tmp[i] = copyVal(src[i])
		}
		copy(dst, tmp)
		return n

	case "clear":
		switch x := args[0].(type) {
		case []value:
			var tElt types.Type
			if sl, ok := fn.Type().(*types.Signature).Params().At(0).Type().Underlying().(*types.Slice); ok {
				tElt = sl.Elem()
			}
			for i := range x {
				w.logStore(&x[i])
				if tElt != nil {
					x[i] = zero(tElt)
				} else {
					x[i] = zeroLike(x[i])
				}
			}
		case *omap:
			if x != nil {
				for _, e := range x.entries {
					if !e.deleted {
						w.mapDelete(x, e.key)
					}
				}
			}
		default:
			panic(unsupported{fmt.Sprintf("clear %T", x)})
		}
		return nil

	case "close":
		w.chanClose(caller, args[0])
		return nil

	case "delete":
		m, ok := args[0].(*omap)
		if !ok {
			panic(unsupported{fmt.Sprintf("illegal map type: %T", args[0])})
		}
		w.mapDelete(m, args[1])
		return nil

	case "print", "println":
		return nil

	case "len":
		switch x := args[0].(type) {
		case string:
			return len(x)
		case *symStr:
			return len(x.b)
		case *opqStr:
			return x.n
		case array:
			return len(x)
		case *value:
			if x == nil {
				// len of nil *array is the array length; we do not know it here
				t := fn.Type().(*types.Signature).Params().At(0).Type()
				return int(deref(t).Underlying().(*types.Array).Len())
			}
			return len((*x).(array))
		case []value:
			return len(x)
		case *omap:
			return x.len()
		case *channel:
			if x == nil {
				return 0
			}
			return len(x.buf)
		default:
			panic(unsupported{fmt.Sprintf("len: illegal operand: %T", x)})
		}

	case "cap":
		switch x := args[0].(type) {
		case array:
			return cap(x)
		case *value:
			return cap((*x).(array))
		case []value:
			return cap(x)
		case *channel:
			if x == nil {
				return 0
			}
			return x.cap
		default:
			panic(unsupported{fmt.Sprintf("cap: illegal operand: %T", x)})
		}

	case "min":
		return w.minmax(true, fn.Type().(*types.Signature).Params().At(0).Type(), args)
	case "max":
		return w.minmax(false, fn.Type().(*types.Signature).Params().At(0).Type(), args)

	case "real":
		switch c := args[0].(type) {
		case complex64:
			return real(c)
		case complex128:
			return real(c)
		}
	case "imag":
		switch c := args[0].(type) {
		case complex64:
			return imag(c)
		case complex128:
			return imag(c)
		}
	case "complex":
		switch f := args[0].(type) {
		case float32:
			return complex(f, args[1].(float32))
		case float64:
			return complex(f, args[1].(float64))
		}

	case "panic":
		panic(targetPanic{args[0]})

	case "recover":
		return doRecover(caller)

	case "ssa:wrapnilchk":
		recv := args[0]
		if p, ok := recv.(*value); ok && p == nil {
			panic(targetPanic{w.runtimeError(fmt.Sprintf("value method %v.%v called using nil pointer", args[1], args[2]))})
		}
		return recv

	case "ssa:deferstack":
		return &caller.defers
	}
	panic(unsupported{"unknown built-in: " + fn.Name()})
}

func zeroLike(v value) value {
	switch v := v.(type) {
	case bool:
		return false
	case int:
		return int(0)
	case int8:
		return int8(0)
	case int16:
		return int16(0)
	case int32:
		return int32(0)
	case int64:
		return int64(0)
	case uint:
		return uint(0)
	case uint8:
		return uint8(0)
	case uint16:
		return uint16(0)
	case uint32:
		return uint32(0)
	case uint64:
		return uint64(0)
	case uintptr:
		return uintptr(0)
	case float32:
		return float32(0)
	case float64:
		return float64(0)
	case string, *symStr, *opqStr:
		return ""
	case *value:
		return (*value)(nil)
	case []value:
		return []value(nil)
	case *omap:
		return (*omap)(nil)
	case *channel:
		return (*channel)(nil)
	case iface:
		return iface{}
	case structure:
		r := make(structure, len(v))
		for i := range v {
			r[i] = zeroLike(v[i])
		}
		return r
	case array:
		r := make(array, len(v))
		for i := range v {
			r[i] = zeroLike(v[i])
		}
		return r
	case *closure, *ssa.Function:
		return (*ssa.Function)(nil)
	}
	panic(unsupported{fmt.Sprintf("zeroLike %T", v)})
}

func shortFn(name string) string {
	if i := strings.LastIndex(name, "/"); i >= 0 {
		return name[i+1:]
	}
	return name
}
