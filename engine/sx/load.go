package sx

import (
	"fmt"
	"go/types"
	"os"
	"sort"
	"strings"
	"sync"
	"time"

	"golang.org/x/tools/go/packages"
	"golang.org/x/tools/go/ssa"
	"golang.org/x/tools/go/ssa/ssautil"
)

// Program is a loaded SSA program plus shared, read-only analysis caches.
type Program struct {
	Prog     *ssa.Program
	Pkgs     []*packages.Package
	Harness  *ssa.Package // package containing the harness entry points
	RepoRoot string
	Stubs    map[string]string // function full name -> harness function replacing it
	RealFmt  bool              // interpret the real fmt code instead of the error-construction model
	LoadTime time.Duration
	SSATime  time.Duration

	runtimeErrorType types.Type
	fnInfos          sync.Map // *ssa.Function -> *fnInfo
	initOwner        map[*ssa.Global]*ssa.Package
}

// LoadConfig describes what to load.
type LoadConfig struct {
	Dir      string            // module directory (go.mod) used as working dir
	Patterns []string          // package patterns; the first one is the harness package
	Overlay  map[string][]byte // file path -> content
	Env      []string
	Tags     []string
	Tests    bool
}

// Load loads the packages from the current working tree and builds SSA for the whole program.
func Load(cfg LoadConfig) (*Program, error) {
	t0 := time.Now()
	env := append(os.Environ(), "GOFLAGS=-mod=mod", "GOPROXY=off", "GOSUMDB=off", "GOTOOLCHAIN=local")
	env = append(env, cfg.Env...)
	pc := &packages.Config{
		Mode:    packages.LoadAllSyntax,
		Dir:     cfg.Dir,
		Overlay: cfg.Overlay,
		Env:     env,
		Tests:   cfg.Tests,
	}
	if len(cfg.Tags) > 0 {
		pc.BuildFlags = []string{"-tags=" + strings.Join(cfg.Tags, ",")}
	}
	pkgs, err := packages.Load(pc, cfg.Patterns...)
	if err != nil {
		return nil, err
	}
	var errs []string
	packages.Visit(pkgs, nil, func(p *packages.Package) {
		for _, e := range p.Errors {
			errs = append(errs, e.Error())
		}
	})
	if len(errs) > 0 {
		sort.Strings(errs)
		if len(errs) > 20 {
			errs = errs[:20]
		}
		return nil, fmt.Errorf("package load errors:\n%s", strings.Join(errs, "\n"))
	}
	t1 := time.Now()
	prog, spkgs := ssautil.AllPackages(pkgs, ssa.InstantiateGenerics)
	prog.Build()
	t2 := time.Now()
	p := &Program{Prog: prog, Pkgs: pkgs, LoadTime: t1.Sub(t0), SSATime: t2.Sub(t1)}
	if len(spkgs) > 0 {
		p.Harness = spkgs[0]
	}
	rt := prog.ImportedPackage("runtime")
	if rt == nil {
		return nil, fmt.Errorf("program does not include package runtime")
	}
	p.runtimeErrorType = rt.Type("errorString").Object().Type()
	p.initOwner = map[*ssa.Global]*ssa.Package{}
	for _, pkg := range prog.AllPackages() {
		for _, m := range pkg.Members {
			if g, ok := m.(*ssa.Global); ok {
				p.initOwner[g] = pkg
			}
		}
	}
	return p, nil
}

// fnInfo caches per-function data: register numbering and intercept.
type fnInfo struct {
	regs      map[ssa.Value]int32
	nregs     int
	intercept interceptFn
	name      string
	inRepo    bool
	ninstr    int
	isInit    bool
}

func (p *Program) info(fn *ssa.Function) *fnInfo {
	if fi, ok := p.fnInfos.Load(fn); ok {
		return fi.(*fnInfo)
	}
	fi := &fnInfo{regs: map[ssa.Value]int32{}}
	n := int32(0)
	add := func(v ssa.Value) {
		if _, ok := fi.regs[v]; !ok {
			fi.regs[v] = n
			n++
		}
	}
	for _, p := range fn.Params {
		add(p)
	}
	for _, fv := range fn.FreeVars {
		add(fv)
	}
	for _, b := range fn.Blocks {
		for _, ins := range b.Instrs {
			fi.ninstr++
			if v, ok := ins.(ssa.Value); ok {
				add(v)
			}
		}
	}
	fi.nregs = int(n)
	fi.name = fn.String()
	fi.intercept = lookupIntercept(p, fn)
	fi.isInit = fn.Name() == "init" && fn.Synthetic != "" && fn.Parent() == nil
	if pos := fn.Pos(); pos.IsValid() && p.RepoRoot != "" {
		fi.inRepo = strings.HasPrefix(p.Prog.Fset.Position(pos).Filename, p.RepoRoot)
	} else if p.RepoRoot != "" && fn.Pkg != nil {
		// synthetic wrappers: attribute by package path
		fi.inRepo = strings.HasPrefix(fn.Pkg.Pkg.Path(), "go.opentelemetry.io/collector")
	}
	act, _ := p.fnInfos.LoadOrStore(fn, fi)
	return act.(*fnInfo)
}
