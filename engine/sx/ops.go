package sx

import (
	"fmt"
	"go/constant"
	"go/token"
	"go/types"
	"math"
	"unicode/utf8"

	"golang.org/x/tools/go/ssa"
)

// targetPanic is a panic of the interpreted program.
type targetPanic struct {
	v value
}

// runtimeErr is the dynamic value of run-time panics (index out of range, nil dereference...).
// It is boxed as iface{runtimeErrorType, runtimeErr{...}} so that recover() sees an error.
type runtimeErr struct {
	msg string
}

// unsupported aborts the path: the code needs a feature the engine does not model.
type unsupported struct{ why string }

func (u unsupported) String() string { return "unsupported: " + u.why }

// lift turns a concrete bool/integer into a constant term of width wd (0 = Bool).
func (w *Worker) lift(v value, wd int) *Term {
	switch x := v.(type) {
	case *Term:
		return x
	case bool:
		return w.tt.Bool(x)
	}
	if c, ok := bitsOf(v); ok {
		return w.tt.Const(wd, c)
	}
	panic(unsupported{fmt.Sprintf("cannot lift %T to term", v)})
}

// lower turns a constant term back into a concrete value of type t.
func lower(t types.Type, x *Term) value {
	if !x.IsConst() {
		return x
	}
	if x.W == 0 {
		return x.IsTrue()
	}
	return fromBits(t, x.C)
}

func (w *Worker) eqTerm(a, b *Term) value {
	r := w.tt.Eq(a, b)
	if r.IsConst() {
		return r.IsTrue()
	}
	return r
}

func (w *Worker) andv(a, b value) value {
	if x, ok := a.(bool); ok {
		if !x {
			return false
		}
		return b
	}
	if y, ok := b.(bool); ok {
		if !y {
			return false
		}
		return a
	}
	return w.tt.And(a.(*Term), b.(*Term))
}

func (w *Worker) orv(a, b value) value {
	if x, ok := a.(bool); ok {
		if x {
			return true
		}
		return b
	}
	if y, ok := b.(bool); ok {
		if y {
			return true
		}
		return a
	}
	return w.tt.Or(a.(*Term), b.(*Term))
}

func (w *Worker) notv(a value) value {
	if x, ok := a.(bool); ok {
		return !x
	}
	return lower(types.Typ[types.Bool], w.tt.Not(a.(*Term)))
}

// constValue returns the value of the constant with the dynamic type tag appropriate for c.Type().
func constValue(c *ssa.Const) value {
	if c.Value == nil {
		return zero(c.Type()) // typed zero
	}
	if t, ok := c.Type().Underlying().(*types.Basic); ok {
		switch t.Kind() {
		case types.Bool, types.UntypedBool:
			return constant.BoolVal(c.Value)
		case types.Int, types.UntypedInt:
			return int(c.Int64())
		case types.Int8:
			return int8(c.Int64())
		case types.Int16:
			return int16(c.Int64())
		case types.Int32, types.UntypedRune:
			return int32(c.Int64())
		case types.Int64:
			return c.Int64()
		case types.Uint:
			return uint(c.Uint64())
		case types.Uint8:
			return uint8(c.Uint64())
		case types.Uint16:
			return uint16(c.Uint64())
		case types.Uint32:
			return uint32(c.Uint64())
		case types.Uint64:
			return c.Uint64()
		case types.Uintptr:
			return uintptr(c.Uint64())
		case types.Float32:
			return float32(c.Float64())
		case types.Float64, types.UntypedFloat:
			return c.Float64()
		case types.Complex64:
			return complex64(c.Complex128())
		case types.Complex128, types.UntypedComplex:
			return c.Complex128()
		case types.String, types.UntypedString:
			if c.Value.Kind() == constant.String {
				return constant.StringVal(c.Value)
			}
			return string(rune(c.Int64()))
		}
	}
	panic(fmt.Sprintf("constValue: %s", c))
}

var intBinOps = map[token.Token]Op{
	token.ADD: OpAdd, token.SUB: OpSub, token.MUL: OpMul,
	token.AND: OpBAnd, token.OR: OpBOr, token.XOR: OpBXor,
}

// binop implements all arithmetic and logical binary operators.
func (w *Worker) binop(op token.Token, t types.Type, x, y value) value {
	// equality first: applies to every comparable type
	switch op {
	case token.EQL:
		return w.eqnil(t, x, y)
	case token.NEQ:
		return w.notv(w.eqnil(t, x, y))
	}
	tx, xs := x.(*Term)
	ty, ys := y.(*Term)
	wd, signed, isInt := intInfo(t)
	if isInt {
		if !xs && !ys {
			return w.binopIntConcrete(op, t, wd, signed, x, y)
		}
		if op == token.SHL || op == token.SHR {
			return w.shiftSym(op, t, wd, signed, x, y)
		}
		if !xs {
			tx = w.lift(x, wd)
		}
		if !ys {
			ty = w.lift(y, wd)
		}
		tt := w.tt
		switch op {
		case token.ADD, token.SUB, token.MUL, token.AND, token.OR, token.XOR:
			return lower(t, tt.Bin(intBinOps[op], tx, ty))
		case token.AND_NOT:
			return lower(t, tt.Bin(OpBAnd, tx, tt.BNot(ty)))
		case token.QUO, token.REM:
			// division by zero is a run-time panic: decide it first
			if w.decide(w.eqTerm(ty, tt.Const(wd, 0)), "div0") {
				panic(targetPanic{w.runtimeError("integer divide by zero")})
			}
			var o Op
			switch {
			case op == token.QUO && signed:
				o = OpSDiv
			case op == token.QUO:
				o = OpUDiv
			case signed:
				o = OpSRem
			default:
				o = OpURem
			}
			return lower(t, tt.Bin(o, tx, ty))
		case token.LSS:
			if signed {
				return lower(types.Typ[types.Bool], tt.Cmp(OpSLt, tx, ty))
			}
			return lower(types.Typ[types.Bool], tt.Cmp(OpULt, tx, ty))
		case token.LEQ:
			if signed {
				return lower(types.Typ[types.Bool], tt.Cmp(OpSLe, tx, ty))
			}
			return lower(types.Typ[types.Bool], tt.Cmp(OpULe, tx, ty))
		case token.GTR:
			if signed {
				return lower(types.Typ[types.Bool], tt.Cmp(OpSLt, ty, tx))
			}
			return lower(types.Typ[types.Bool], tt.Cmp(OpULt, ty, tx))
		case token.GEQ:
			if signed {
				return lower(types.Typ[types.Bool], tt.Cmp(OpSLe, ty, tx))
			}
			return lower(types.Typ[types.Bool], tt.Cmp(OpULe, ty, tx))
		}
		panic(unsupported{fmt.Sprintf("symbolic int binop %s", op)})
	}
	if xs || ys {
		// symbolic booleans
		if b, ok := t.Underlying().(*types.Basic); ok && b.Info()&types.IsBoolean != 0 {
			switch op {
			case token.AND, token.LAND:
				return w.andv(x, y)
			case token.OR, token.LOR:
				return w.orv(x, y)
			}
		}
		panic(unsupported{fmt.Sprintf("symbolic operand in %s on %s", op, t)})
	}

	// strings
	switch xv := x.(type) {
	case string, *symStr, *opqStr:
		return w.binopString(op, xv, y)
	}

	// floats / complex: concrete only
	switch x := x.(type) {
	case float32:
		y := y.(float32)
		switch op {
		case token.ADD:
			return x + y
		case token.SUB:
			return x - y
		case token.MUL:
			return x * y
		case token.QUO:
			return x / y
		case token.LSS:
			return x < y
		case token.LEQ:
			return x <= y
		case token.GTR:
			return x > y
		case token.GEQ:
			return x >= y
		}
	case float64:
		y := y.(float64)
		switch op {
		case token.ADD:
			return x + y
		case token.SUB:
			return x - y
		case token.MUL:
			return x * y
		case token.QUO:
			return x / y
		case token.LSS:
			return x < y
		case token.LEQ:
			return x <= y
		case token.GTR:
			return x > y
		case token.GEQ:
			return x >= y
		}
	case complex64:
		y := y.(complex64)
		switch op {
		case token.ADD:
			return x + y
		case token.SUB:
			return x - y
		case token.MUL:
			return x * y
		case token.QUO:
			return x / y
		}
	case complex128:
		y := y.(complex128)
		switch op {
		case token.ADD:
			return x + y
		case token.SUB:
			return x - y
		case token.MUL:
			return x * y
		case token.QUO:
			return x / y
		}
	case bool:
		y := y.(bool)
		switch op {
		case token.AND, token.LAND:
			return x && y
		case token.OR, token.LOR:
			return x || y
		}
	case floatSym:
		panic(unsupported{"arithmetic on symbolic float"})
	}
	panic(unsupported{fmt.Sprintf("invalid binary op: %T %s %T", x, op, y)})
}

func (w *Worker) binopIntConcrete(op token.Token, t types.Type, wd int, signed bool, x, y value) value {
	xb, ok1 := bitsOf(x)
	yb, ok2 := bitsOf(y)
	if !ok1 {
		panic(unsupported{fmt.Sprintf("int binop %s on %T", op, x)})
	}
	if !ok2 {
		panic(unsupported{fmt.Sprintf("int binop %s on %T", op, y)})
	}
	m := mask(wd)
	xb &= m
	switch op {
	case token.SHL:
		// shift count has its own (unsigned or signed) type
		if n, neg := shiftCount(y); neg {
			panic(targetPanic{w.runtimeError("negative shift amount")})
		} else if n >= uint64(wd) {
			return fromBits(t, 0)
		} else {
			return fromBits(t, (xb<<n)&m)
		}
	case token.SHR:
		n, neg := shiftCount(y)
		if neg {
			panic(targetPanic{w.runtimeError("negative shift amount")})
		}
		if signed {
			if n >= uint64(wd) {
				n = uint64(wd - 1)
			}
			return fromBits(t, uint64(sext(xb, wd)>>n)&m)
		}
		if n >= uint64(wd) {
			return fromBits(t, 0)
		}
		return fromBits(t, xb>>n)
	}
	yb &= m
	switch op {
	case token.ADD:
		return fromBits(t, (xb+yb)&m)
	case token.SUB:
		return fromBits(t, (xb-yb)&m)
	case token.MUL:
		return fromBits(t, (xb*yb)&m)
	case token.AND:
		return fromBits(t, xb&yb)
	case token.OR:
		return fromBits(t, xb|yb)
	case token.XOR:
		return fromBits(t, xb^yb)
	case token.AND_NOT:
		return fromBits(t, xb&^yb)
	case token.QUO, token.REM:
		if yb == 0 {
			panic(targetPanic{w.runtimeError("integer divide by zero")})
		}
		var o Op
		switch {
		case op == token.QUO && signed:
			o = OpSDiv
		case op == token.QUO:
			o = OpUDiv
		case signed:
			o = OpSRem
		default:
			o = OpURem
		}
		r, _ := foldBin(o, wd, xb, yb)
		return fromBits(t, r)
	case token.LSS:
		if signed {
			return sext(xb, wd) < sext(yb, wd)
		}
		return xb < yb
	case token.LEQ:
		if signed {
			return sext(xb, wd) <= sext(yb, wd)
		}
		return xb <= yb
	case token.GTR:
		if signed {
			return sext(xb, wd) > sext(yb, wd)
		}
		return xb > yb
	case token.GEQ:
		if signed {
			return sext(xb, wd) >= sext(yb, wd)
		}
		return xb >= yb
	}
	panic(unsupported{fmt.Sprintf("invalid int binary op %s", op)})
}

func shiftCount(y value) (n uint64, negative bool) {
	switch y := y.(type) {
	case int:
		return uint64(y), y < 0
	case int8:
		return uint64(y), y < 0
	case int16:
		return uint64(y), y < 0
	case int32:
		return uint64(y), y < 0
	case int64:
		return uint64(y), y < 0
	}
	b, ok := bitsOf(y)
	if !ok {
		panic(unsupported{fmt.Sprintf("shift count %T", y)})
	}
	return b, false
}

// shiftSym handles x << y / x >> y when at least one operand is symbolic.
func (w *Worker) shiftSym(op token.Token, t types.Type, wd int, signed bool, x, y value) value {
	tt := w.tt
	tx := w.lift(x, wd)
	var cnt *Term
	if ty, ok := y.(*Term); ok {
		// The shift count has its own width; Go forbids negative counts of signed type at run time.
		// The SSA builder converts the count; we normalise it to the operand width, saturating.
		cnt = ty
		if cnt.W > wd {
			// count >= 2^wd certainly shifts everything out: saturate
			hi := tt.Extract(cnt, cnt.W-1, wd)
			lo := tt.Extract(cnt, wd-1, 0)
			cnt = tt.Ite(tt.Eq(hi, tt.Const(hi.W, 0)), lo, tt.Const(wd, mask(wd)))
		} else if cnt.W < wd {
			cnt = tt.ZExt(cnt, wd)
		}
	} else {
		n, neg := shiftCount(y)
		if neg {
			panic(targetPanic{w.runtimeError("negative shift amount")})
		}
		if n > uint64(wd) {
			n = uint64(wd)
		}
		cnt = tt.Const(wd, n)
	}
	// SMT-LIB bvshl/bvlshr yield 0 for counts >= width, bvashr sign-fills: same as Go.
	switch {
	case op == token.SHL:
		return lower(t, tt.Bin(OpShl, tx, cnt))
	case signed:
		return lower(t, tt.Bin(OpAShr, tx, cnt))
	default:
		return lower(t, tt.Bin(OpLShr, tx, cnt))
	}
}

func (w *Worker) binopString(op token.Token, x, y value) value {
	if xs, ok := x.(string); ok {
		if ys, ok := y.(string); ok {
			switch op {
			case token.ADD:
				return xs + ys
			case token.LSS:
				return xs < ys
			case token.LEQ:
				return xs <= ys
			case token.GTR:
				return xs > ys
			case token.GEQ:
				return xs >= ys
			}
		}
	}
	_, xo := x.(*opqStr)
	_, yo := y.(*opqStr)
	if xo || yo {
		if op == token.ADD {
			// concatenation of opaque strings: a new opaque string whose length is the sum
			w.opqSeq++
			return &opqStr{n: w.binop(token.ADD, types.Typ[types.Int], strLen(w, x), strLen(w, y)), id: w.opqSeq}
		}
		panic(unsupported{"ordering comparison on opaque string"})
	}
	xb, yb := strBytes(x), strBytes(y)
	switch op {
	case token.ADD:
		r := make([]value, 0, len(xb)+len(yb))
		r = append(r, xb...)
		r = append(r, yb...)
		return normStr(r)
	case token.LSS, token.LEQ, token.GTR, token.GEQ:
		if op == token.GTR || op == token.GEQ {
			xb, yb = yb, xb
			if op == token.GTR {
				op = token.LSS
			} else {
				op = token.LEQ
			}
		}
		// lexicographic xb < yb (or <=)
		n := len(xb)
		if len(yb) < n {
			n = len(yb)
		}
		var res value
		if op == token.LSS {
			res = len(xb) < len(yb)
		} else {
			res = len(xb) <= len(yb)
		}
		u8 := types.Typ[types.Uint8]
		for i := n - 1; i >= 0; i-- {
			lt := w.binop(token.LSS, u8, xb[i], yb[i])
			eq := w.eqv(u8, xb[i], yb[i])
			res = w.orv(lt, w.andv(eq, res))
		}
		return res
	}
	panic(unsupported{fmt.Sprintf("string op %s", op)})
}

func (w *Worker) runtimeError(msg string) value {
	return iface{t: w.prog.runtimeErrorType, v: structure{msg}}
}

// unop implements unary operators other than receive.
func (w *Worker) unop(instr *ssa.UnOp, x value) value {
	switch instr.Op {
	case token.SUB:
		if tx, ok := x.(*Term); ok {
			return lower(instr.Type(), w.tt.Neg(tx))
		}
		switch x := x.(type) {
		case float32:
			return -x
		case float64:
			return -x
		case complex64:
			return -x
		case complex128:
			return -x
		}
		wd, _, ok := intInfo(instr.Type())
		if !ok {
			panic(unsupported{fmt.Sprintf("unary - on %T", x)})
		}
		b, _ := bitsOf(x)
		return fromBits(instr.Type(), (-b)&mask(wd))
	case token.MUL:
		p, ok := x.(*value)
		if !ok {
			panic(unsupported{fmt.Sprintf("load through %T", x)})
		}
		if p == nil {
			panic(targetPanic{w.runtimeError("invalid memory address or nil pointer dereference")})
		}
		v := load(deref(instr.X.Type()), p)
		// *(*string)(unsafe.Pointer(&byteSlice)): the bytes of a slice viewed as a string (jsoniter, strings.Builder)
		if bs, isBytes := v.([]value); isBytes {
			if b, ok := deref(instr.X.Type()).Underlying().(*types.Basic); ok && b.Info()&types.IsString != 0 {
				cp := make([]value, len(bs))
				copy(cp, bs)
				return normStr(cp)
			}
		}
		return v
	case token.NOT:
		return w.notv(x)
	case token.XOR:
		if tx, ok := x.(*Term); ok {
			return lower(instr.Type(), w.tt.BNot(tx))
		}
		wd, _, ok := intInfo(instr.Type())
		if !ok {
			panic(unsupported{fmt.Sprintf("unary ^ on %T", x)})
		}
		b, _ := bitsOf(x)
		return fromBits(instr.Type(), (^b)&mask(wd))
	}
	panic(unsupported{fmt.Sprintf("invalid unary op %s %T", instr.Op, x)})
}

// floatSym is a float64/float32 whose bit pattern is symbolic (opaque to arithmetic).
type floatSym struct {
	bits *Term
}

// conv converts the value x of type t_src to type t_dst.
func (w *Worker) conv(t_dst, t_src types.Type, x value) value {
	ut_src := t_src.Underlying()
	ut_dst := t_dst.Underlying()

	switch ut_src := ut_src.(type) {
	case *types.Pointer:
		if b, ok := ut_dst.(*types.Basic); ok && b.Kind() == types.UnsafePointer {
			return unsafePtr{p: x}
		}
	case *types.Slice:
		// []byte or []rune -> string
		switch ut_src.Elem().Underlying().(*types.Basic).Kind() {
		case types.Byte:
			xs := x.([]value)
			b := make([]value, len(xs))
			copy(b, xs)
			return normStr(b)
		case types.Rune:
			xs := x.([]value)
			r := make([]rune, 0, len(xs))
			for i := range xs {
				c, ok := xs[i].(rune)
				if !ok {
					panic(unsupported{"symbolic []rune -> string"})
				}
				r = append(r, c)
			}
			return string(r)
		}
	case *types.Basic:
		// string source
		switch s := x.(type) {
		case string:
			switch ut_dst := ut_dst.(type) {
			case *types.Slice:
				switch ut_dst.Elem().Underlying().(*types.Basic).Kind() {
				case types.Rune:
					var res []value
					for _, r := range []rune(s) {
						res = append(res, r)
					}
					if res == nil {
						res = []value{}
					}
					return res
				case types.Byte:
					res := make([]value, len(s))
					for i := 0; i < len(s); i++ {
						res[i] = s[i]
					}
					return res
				}
			case *types.Basic:
				if ut_dst.Kind() == types.String {
					return s
				}
			}
		case *symStr:
			switch ut_dst := ut_dst.(type) {
			case *types.Slice:
				if ut_dst.Elem().Underlying().(*types.Basic).Kind() == types.Byte {
					res := make([]value, len(s.b))
					copy(res, s.b)
					return res
				}
				panic(unsupported{"symbolic string -> []rune"})
			case *types.Basic:
				if ut_dst.Kind() == types.String {
					return s
				}
			}
		case *opqStr:
			if b, ok := ut_dst.(*types.Basic); ok && b.Kind() == types.String {
				return s
			}
			panic(unsupported{"conversion of opaque string to bytes"})
		case unsafePtr:
			if _, ok := ut_dst.(*types.Pointer); ok {
				if s.p == nil {
					return zero(t_dst)
				}
				if p, ok := s.p.(*value); ok {
					return p
				}
				panic(unsupported{"unsafe.Pointer -> pointer of a non-pointer object"})
			}
			if b, ok := ut_dst.(*types.Basic); ok && b.Kind() == types.UnsafePointer {
				return s
			}
			panic(unsupported{"unsafe.Pointer -> " + t_dst.String()})
		}

		dstB, dstIsBasic := ut_dst.(*types.Basic)
		// integer -> string
		if ut_src.Info()&types.IsInteger != 0 && dstIsBasic && dstB.Kind() == types.String {
			if _, ok := x.(*Term); ok {
				panic(unsupported{"symbolic integer -> string"})
			}
			return string(rune(asInt64(x)))
		}
		if !dstIsBasic {
			break
		}
		// numeric conversions
		if ut_src.Info()&types.IsNumeric != 0 && dstB.Info()&types.IsNumeric != 0 {
			sw, ssigned, sInt := intInfo(ut_src)
			dw, _, dInt := intInfo(ut_dst)
			if tx, ok := x.(*Term); ok {
				if !sInt || !dInt {
					panic(unsupported{"symbolic int <-> float conversion"})
				}
				switch {
				case dw == sw:
					return tx
				case dw < sw:
					return lower(t_dst, w.tt.Extract(tx, dw-1, 0))
				case ssigned:
					return lower(t_dst, w.tt.SExt(tx, dw))
				default:
					return lower(t_dst, w.tt.ZExt(tx, dw))
				}
			}
			if _, ok := x.(floatSym); ok {
				panic(unsupported{"conversion of symbolic float"})
			}
			if sInt && dInt {
				b, _ := bitsOf(x)
				if ssigned {
					b = uint64(sext(b&mask(sw), sw))
				}
				return fromBits(t_dst, b&mask(dw))
			}
			return convNumeric(dstB.Kind(), x)
		}
	}
	panic(unsupported{fmt.Sprintf("unsupported conversion: %s  -> %s, dynamic type %T", t_src, t_dst, x)})
}

func convNumeric(kind types.BasicKind, x value) value {
	switch x := x.(type) {
	case complex64:
		switch kind {
		case types.Complex64:
			return x
		case types.Complex128:
			return complex128(x)
		}
	case complex128:
		switch kind {
		case types.Complex64:
			return complex64(x)
		case types.Complex128:
			return x
		}
	}
	var f float64
	isFloat := false
	var i int64
	var u uint64
	isUnsigned := false
	switch x := x.(type) {
	case float32:
		f, isFloat = float64(x), true
	case float64:
		f, isFloat = x, true
	case uint, uint8, uint16, uint32, uint64, uintptr:
		u, _ = bitsOf(x)
		isUnsigned = true
	default:
		i = asInt64(x)
	}
	switch kind {
	case types.Float32:
		switch {
		case isFloat:
			return float32(f)
		case isUnsigned:
			return float32(u)
		default:
			return float32(i)
		}
	case types.Float64:
		switch {
		case isFloat:
			return f
		case isUnsigned:
			return float64(u)
		default:
			return float64(i)
		}
	}
	if !isFloat {
		panic(unsupported{"convNumeric int->int reached"})
	}
	switch kind {
	case types.Int:
		return int(f)
	case types.Int8:
		return int8(f)
	case types.Int16:
		return int16(f)
	case types.Int32:
		return int32(f)
	case types.Int64:
		return int64(f)
	case types.Uint:
		return uint(f)
	case types.Uint8:
		return uint8(f)
	case types.Uint16:
		return uint16(f)
	case types.Uint32:
		return uint32(f)
	case types.Uint64:
		return uint64(f)
	case types.Uintptr:
		return uintptr(f)
	}
	panic(unsupported{fmt.Sprintf("convNumeric to %v", kind)})
}

// sliceToArrayPointer converts a slice to a pointer to array.
func (w *Worker) sliceToArrayPointer(t_dst, t_src types.Type, x value) value {
	if _, ok := t_src.Underlying().(*types.Slice); ok {
		if ptr, ok := t_dst.Underlying().(*types.Pointer); ok {
			if arr, ok := ptr.Elem().Underlying().(*types.Array); ok {
				x := x.([]value)
				if arr.Len() > int64(len(x)) {
					panic(targetPanic{w.runtimeError("cannot convert slice to array pointer: length too short")})
				}
				if x == nil {
					return zero(t_dst)
				}
				v := value(array(x[:arr.Len():arr.Len()]))
				return &v
			}
		}
	}
	panic(unsupported{fmt.Sprintf("unsupported conversion: %s  -> %s, dynamic type %T", t_src, t_dst, x)})
}

func (w *Worker) typeAssert(instr *ssa.TypeAssert, itf iface) value {
	var v value
	err := ""
	if itf.t == nil {
		err = fmt.Sprintf("interface conversion: interface is nil, not %s", instr.AssertedType)
	} else if idst, ok := instr.AssertedType.Underlying().(*types.Interface); ok {
		v = itf
		if meth, _ := types.MissingMethod(itf.t, idst, true); meth != nil {
			err = fmt.Sprintf("interface conversion: %v is not %v: missing method %s", itf.t, idst, meth.Name())
		}
	} else if types.Identical(itf.t, instr.AssertedType) {
		v = itf.v // extract value
	} else {
		err = fmt.Sprintf("interface conversion: interface is %s, not %s", itf.t, instr.AssertedType)
	}
	if err != "" {
		if !instr.CommaOk {
			panic(targetPanic{w.runtimeError(err)})
		}
		return tuple{zero(instr.AssertedType), false}
	}
	if instr.CommaOk {
		return tuple{v, true}
	}
	return v
}

func (w *Worker) minmax(isMin bool, t types.Type, args []value) value {
	x := args[0]
	for _, y := range args[1:] {
		switch xv := x.(type) {
		case float64:
			if isMin {
				x = math.Min(xv, y.(float64))
			} else {
				x = math.Max(xv, y.(float64))
			}
			continue
		case float32:
			if isMin {
				x = float32(math.Min(float64(xv), float64(y.(float32))))
			} else {
				x = float32(math.Max(float64(xv), float64(y.(float32))))
			}
			continue
		}
		var c value
		if isMin {
			c = w.binop(token.LSS, t, y, x)
		} else {
			c = w.binop(token.GTR, t, y, x)
		}
		switch c := c.(type) {
		case bool:
			if c {
				x = y
			}
		case *Term:
			wd, _, ok := intInfo(t)
			if !ok {
				panic(unsupported{"symbolic min/max on non-integer"})
			}
			x = lower(t, w.tt.Ite(c, w.lift(y, wd), w.lift(x, wd)))
		}
	}
	return x
}

var _ = utf8.RuneLen
