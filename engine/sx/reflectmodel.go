package sx

import (
	"go/types"

	"golang.org/x/tools/go/ssa"
)

// A minimal model of package reflect, sufficient for the paths fmt takes for operands whose kind is
// a basic kind (the "bad verb" and %T / %p paths, printValue on strings, integers and booleans).
// A reflect.Value is represented by reflVal (the zero Value stays the zero struct); a reflect.Type
// is an interface value holding *reflect.rtype with an rtype payload.  Anything else of package
// reflect remains unsupported (the path ends as inconclusive).

type reflVal struct {
	t types.Type
	v value
}

func reflKind(t types.Type) uint64 {
	switch u := t.Underlying().(type) {
	case *types.Basic:
		switch u.Kind() {
		case types.Bool:
			return 1
		case types.Int:
			return 2
		case types.Int8:
			return 3
		case types.Int16:
			return 4
		case types.Int32:
			return 5
		case types.Int64:
			return 6
		case types.Uint:
			return 7
		case types.Uint8:
			return 8
		case types.Uint16:
			return 9
		case types.Uint32:
			return 10
		case types.Uint64:
			return 11
		case types.Uintptr:
			return 12
		case types.Float32:
			return 13
		case types.Float64:
			return 14
		case types.Complex64:
			return 15
		case types.Complex128:
			return 16
		case types.String:
			return 24
		case types.UnsafePointer:
			return 26
		}
	case *types.Array:
		return 17
	case *types.Chan:
		return 18
	case *types.Signature:
		return 19
	case *types.Interface:
		return 20
	case *types.Map:
		return 21
	case *types.Pointer:
		return 22
	case *types.Slice:
		return 23
	case *types.Struct:
		return 25
	}
	panic(unsupported{"reflect.Kind of " + t.String()})
}

func (w *Worker) reflTypeIface(t types.Type) value {
	if t == nil {
		return iface{}
	}
	return iface{t: types.NewPointer(w.namedType("reflect", "rtype")), v: rtype{t: t}}
}

func init() {
	S := stdIntercepts
	basicOnly := func(rv value, what string) reflVal {
		r, ok := rv.(reflVal)
		if !ok {
			panic(unsupported{"reflect: " + what + " on the zero Value"})
		}
		return r
	}
	S["reflect.ValueOf"] = func(w *Worker, fr *frame, fn *ssa.Function, args []value) value {
		itf := args[0].(iface)
		if itf.t == nil {
			return zero(fn.Signature.Results().At(0).Type())
		}
		return reflVal{t: itf.t, v: itf.v}
	}
	S["reflect.TypeOf"] = func(w *Worker, fr *frame, fn *ssa.Function, args []value) value {
		return w.reflTypeIface(args[0].(iface).t)
	}
	S["(reflect.Value).IsValid"] = func(w *Worker, fr *frame, fn *ssa.Function, args []value) value {
		_, ok := args[0].(reflVal)
		return ok
	}
	S["(reflect.Value).CanInterface"] = func(w *Worker, fr *frame, fn *ssa.Function, args []value) value {
		_, ok := args[0].(reflVal)
		return ok
	}
	S["(reflect.Value).Interface"] = func(w *Worker, fr *frame, fn *ssa.Function, args []value) value {
		r := basicOnly(args[0], "Interface")
		return iface{t: r.t, v: r.v}
	}
	S["(reflect.Value).Kind"] = func(w *Worker, fr *frame, fn *ssa.Function, args []value) value {
		r, ok := args[0].(reflVal)
		if !ok {
			return uint(0)
		}
		return uint(reflKind(r.t))
	}
	S["(reflect.Value).Type"] = func(w *Worker, fr *frame, fn *ssa.Function, args []value) value {
		return w.reflTypeIface(basicOnly(args[0], "Type").t)
	}
	S["(reflect.Value).String"] = func(w *Worker, fr *frame, fn *ssa.Function, args []value) value {
		r, ok := args[0].(reflVal)
		if !ok {
			return "<invalid Value>"
		}
		if reflKind(r.t) == 24 {
			return r.v
		}
		return "<" + types.TypeString(r.t, func(p *types.Package) string { return p.Name() }) + " Value>"
	}
	S["(reflect.Value).Bool"] = func(w *Worker, fr *frame, fn *ssa.Function, args []value) value {
		r := basicOnly(args[0], "Bool")
		if reflKind(r.t) != 1 {
			panic(unsupported{"reflect: Bool of non-bool"})
		}
		return r.v
	}
	S["(reflect.Value).Int"] = func(w *Worker, fr *frame, fn *ssa.Function, args []value) value {
		r := basicOnly(args[0], "Int")
		if k := reflKind(r.t); k < 2 || k > 6 {
			panic(unsupported{"reflect: Int of non-int"})
		}
		return w.conv(types.Typ[types.Int64], r.t, r.v)
	}
	S["(reflect.Value).Uint"] = func(w *Worker, fr *frame, fn *ssa.Function, args []value) value {
		r := basicOnly(args[0], "Uint")
		if k := reflKind(r.t); k < 7 || k > 12 {
			panic(unsupported{"reflect: Uint of non-uint"})
		}
		return w.conv(types.Typ[types.Uint64], r.t, r.v)
	}
	S["(reflect.Value).Len"] = func(w *Worker, fr *frame, fn *ssa.Function, args []value) value {
		r := basicOnly(args[0], "Len")
		if reflKind(r.t) != 24 {
			panic(unsupported{"reflect: Len of non-string"})
		}
		switch s := r.v.(type) {
		case string:
			return len(s)
		case *symStr:
			return len(s.b)
		}
		panic(unsupported{"reflect: Len of opaque string"})
	}
	S["(*reflect.rtype).Kind"] = func(w *Worker, fr *frame, fn *ssa.Function, args []value) value {
		rt, ok := args[0].(rtype)
		if !ok {
			panic(unsupported{"reflect: Kind of unknown type representation"})
		}
		return uint(reflKind(rt.t))
	}
	S["(*reflect.rtype).String"] = func(w *Worker, fr *frame, fn *ssa.Function, args []value) value {
		rt, ok := args[0].(rtype)
		if !ok {
			panic(unsupported{"reflect: String of unknown type representation"})
		}
		return types.TypeString(rt.t, func(p *types.Package) string { return p.Name() })
	}
}
