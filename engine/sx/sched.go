package sx

import (
	"fmt"
	"go/types"
	"sort"
	"strings"
	"sync"

	"golang.org/x/tools/go/ssa"
)

// goroutine is an interpreted goroutine. Exactly one runs at a time (baton passing).
type goroutine struct {
	id      int
	wake    chan bool
	done    bool // finished executing
	exited  bool // host goroutine gone
	parked  bool
	blocked bool
	forever bool // blocked on a nil channel / empty select
	waitOn  string
	waitFn  string // repo function in which the goroutine blocked
	name    string
	isHost  bool // has its own host goroutine (all but G0)
}

type timer struct {
	id       int
	ch       *channel // for NewTimer/After/Ticker
	fn       value    // for AfterFunc
	armed    bool
	periodic bool
	fires    int
	cell     *value // the *time.Timer / *time.Ticker object
}

type scheduler struct {
	w           *Worker
	gs          []*goroutine
	cur         *goroutine
	preemptions int
	timers      []*timer
	hostWG      sync.WaitGroup
	pendingEnd  *pathEnd
	mutexes     map[*value]*mutexState
	rwmutexes   map[*value]*rwState
	conds       map[*value]*condState
	wgs         map[*value]*wgState
	timerByCell map[*value]*timer
	pools       map[*value][]value
	chanSeq     int
	timerFires  int
	timerResets int
}

type mutexState struct {
	locked bool
	owner  int
}

type rwState struct {
	writer  bool
	readers int
}

type condState struct {
	waiters []*condWaiter
}

type condWaiter struct {
	g        *goroutine
	signaled bool
}

type wgState struct {
	n int64
}

func (s *scheduler) reset(w *Worker) {
	s.w = w
	s.gs = s.gs[:0]
	s.cur = nil
	s.preemptions = 0
	s.timers = nil
	s.pendingEnd = nil
	s.mutexes = map[*value]*mutexState{}
	s.rwmutexes = map[*value]*rwState{}
	s.conds = map[*value]*condState{}
	s.wgs = map[*value]*wgState{}
	s.timerByCell = map[*value]*timer{}
	s.pools = map[*value][]value{}
	s.chanSeq = 0
	s.timerFires = 0
	s.timerResets = 0
}

func (s *scheduler) newG() *goroutine {
	g := &goroutine{id: len(s.gs), wake: make(chan bool)}
	s.gs = append(s.gs, g)
	return g
}

// abortAll unwinds every parked goroutine at the end of a path.
func (s *scheduler) abortAll() {
	for _, g := range s.gs {
		if g.isHost && !g.exited && g.parked {
			g.wake <- false
		}
	}
	s.hostWG.Wait()
}

// spawn starts a new interpreted goroutine (it does not run until scheduled).
func (w *Worker) spawn(fr *frame, fn value, args []value) {
	if w.inInit > 0 {
		panic(unsupported{"go statement in package initializer"})
	}
	s := &w.sched
	g := s.newG()
	g.isHost = true
	g.parked = true
	switch f := fn.(type) {
	case *ssa.Function:
		g.name = f.String()
	case *closure:
		g.name = f.Fn.String()
	}
	if len(s.gs) > 64 {
		w.endPath("cut", "more than 64 goroutines")
	}
	s.hostWG.Add(1)
	go func() {
		defer s.hostWG.Done()
		defer func() { g.exited = true }()
		if ok := <-g.wake; !ok {
			return
		}
		g.parked = false
		var end *pathEnd
		func() {
			defer func() {
				if r := recover(); r != nil {
					if _, isAbort := r.(abortG); isAbort {
						end = &pathEnd{kind: "abort"}
						return
					}
					e := w.classifyPanic(r, g)
					end = &e
				}
			}()
			w.call(nil, g, fn, args)
		}()
		g.done = true
		if end != nil {
			if end.kind == "abort" {
				return
			}
			// the path ends here: hand control back to G0 with the verdict
			s.pendingEnd = end
			g0 := s.gs[0]
			g0.wake <- false
			return
		}
		// normal goroutine exit: pass the baton
		s.exitSwitch(g)
	}()
	// the go statement itself is a visible operation
	s.point(fr.g, "go")
}

// runnable lists goroutines that could run now (excluding `except`).
func (s *scheduler) runnable(except *goroutine) []*goroutine {
	var r []*goroutine
	for _, g := range s.gs {
		if g != except && !g.done && !g.blocked {
			r = append(r, g)
		}
	}
	return r
}

func (s *scheduler) armedTimers() []*timer {
	var r []*timer
	for _, t := range s.timers {
		if t.armed && t.fires < s.w.timerFireBound() {
			r = append(r, t)
		}
	}
	return r
}

func (w *Worker) timerFireBound() int {
	if b, ok := w.ex.opt.Params["timer_fires"]; ok {
		return int(b)
	}
	return 3
}

// point is a scheduling point before a visible operation of g (which could continue).
func (s *scheduler) point(g *goroutine, what string) {
	if s.w.inInit > 0 || g == nil || g.id < 0 {
		return
	}
	for {
		if s.preemptions >= s.w.ex.opt.Preempt {
			return
		}
		others := s.runnable(g)
		timers := s.armedTimers()
		n := 1 + len(others) + len(timers)
		if n == 1 {
			return
		}
		k := s.w.choose(n, "sched:"+what)
		if k == 0 {
			return
		}
		s.preemptions++
		if k <= len(others) {
			s.switchTo(g, others[k-1])
			return
		}
		s.fire(timers[k-1-len(others)])
		// after firing a timer the current goroutine is still the one running; loop to allow a switch
	}
}

// switchTo parks g and runs next.
func (s *scheduler) switchTo(g, next *goroutine) {
	if s.w.ex.opt.Trace {
		s.w.trace = append(s.w.trace, fmt.Sprintf("switch g%d -> g%d", g.id, next.id))
	}
	s.cur = next
	g.parked = true
	next.wake <- true
	ok := <-g.wake
	g.parked = false
	if !ok {
		if g.id == 0 && s.pendingEnd != nil {
			panic(*s.pendingEnd)
		}
		panic(abortG{})
	}
	s.cur = g
}

// block is called when g cannot proceed; returns when g has been made runnable and scheduled again.
func (s *scheduler) block(g *goroutine, why string) {
	if s.w.inInit > 0 {
		panic(unsupported{"blocking operation in package initializer"})
	}
	g.blocked = true
	g.waitOn = why
	for g.blocked {
		next := s.pickNext(g)
		if next == nil {
			continue // a timer fired; re-evaluate
		}
		s.switchTo(g, next)
	}
}

// pickNext chooses who runs while g is blocked or done. It may fire a timer and return nil.
func (s *scheduler) pickNext(g *goroutine) *goroutine {
	others := s.runnable(g)
	timers := s.armedTimers()
	n := len(others) + len(timers)
	if n == 0 {
		s.deadlock(g)
	}
	k := 0
	if n > 1 {
		k = s.w.choose(n, "sched:block")
	}
	if k < len(others) {
		return others[k]
	}
	s.fire(timers[k-len(others)])
	if !g.blocked && !g.done {
		return nil
	}
	return nil
}

// exitSwitch hands the baton over when goroutine g has finished.
func (s *scheduler) exitSwitch(g *goroutine) {
	defer func() {
		// choose/deadlock may end the path from this host goroutine
		if r := recover(); r != nil {
			e := s.w.classifyPanic(r, g)
			if e.kind == "abort" {
				return
			}
			s.pendingEnd = &e
			s.gs[0].wake <- false
		}
	}()
	for {
		next := s.pickNext(g)
		if next != nil {
			s.cur = next
			next.wake <- true
			return
		}
	}
}

func (s *scheduler) deadlock(g *goroutine) {
	w := s.w
	// distinguish a genuine deadlock from "only waiting for (budget-exhausted) timers"
	for _, t := range s.timers {
		if t.armed {
			w.endPath("cut", "timer fire budget exhausted while all goroutines wait")
		}
	}
	var desc string
	for _, x := range s.gs {
		if !x.done {
			desc += fmt.Sprintf("g%d(%s) waits on %s; ", x.id, x.name, x.waitOn)
		}
	}
	w.reportViolation("deadlock", w.deadlockLabel(), desc, nil)
	w.endPath("violation-end", "deadlock: "+desc)
}

// deadlockLabel names the repo functions in which the goroutines are stuck, so that different
// deadlocks have different fingerprints.
func (w *Worker) deadlockLabel() string {
	set := map[string]bool{}
	for _, g := range w.sched.gs {
		if !g.done && g.blocked && g.waitFn != "" {
			set[g.waitFn] = true
		}
	}
	var names []string
	for n := range set {
		names = append(names, n)
	}
	sort.Strings(names)
	if len(names) == 0 {
		return "deadlock"
	}
	return "deadlock/" + strings.Join(names, "+")
}

// repoFn returns the innermost function of the code under test on fr's call stack.
func repoFn(fr *frame) string {
	for f := fr; f != nil; f = f.caller {
		if f.fi != nil && f.fi.inRepo && !strings.Contains(f.fi.name, ".Verif") && !strings.Contains(f.fi.name, ".v") {
			return shortFn(f.fi.name)
		}
	}
	return ""
}

// ---------------------------------------------------------------------------------------------
// channels

type channel struct {
	id     int
	cap    int
	buf    []value
	closed bool
	elem   types.Type
	recvq  []*waiter
	sendq  []*waiter
}

type waiter struct {
	g       *goroutine
	isSend  bool
	val     value
	ok      bool
	done    bool
	closedP bool // sender woken by close: must panic
	sel     *selWait
	caseIdx int
}

type selWait struct {
	fired bool
	idx   int
}

func (w *Worker) newChan(n int, elem types.Type) *channel {
	w.sched.chanSeq++
	return &channel{id: w.sched.chanSeq, cap: n, elem: elem}
}

func (wt *waiter) live() bool {
	if wt.done || wt.g.done {
		return false
	}
	if wt.sel != nil && wt.sel.fired {
		return false
	}
	return true
}

func popLive(q *[]*waiter) *waiter {
	for len(*q) > 0 {
		wt := (*q)[0]
		*q = (*q)[1:]
		if wt.live() {
			return wt
		}
	}
	return nil
}

func hasLive(q []*waiter) bool {
	for _, wt := range q {
		if wt.live() {
			return true
		}
	}
	return false
}

func (wt *waiter) complete() {
	wt.done = true
	if wt.sel != nil {
		wt.sel.fired = true
		wt.sel.idx = wt.caseIdx
	}
	wt.g.blocked = false
}

func (c *channel) canSend() bool {
	return c.closed || hasLive(c.recvq) || len(c.buf) < c.cap
}

func (c *channel) canRecv() bool {
	return len(c.buf) > 0 || hasLive(c.sendq) || c.closed
}

// doSend performs a send that is known not to block.
func (w *Worker) doSend(c *channel, v value) {
	if c.closed {
		panic(targetPanic{w.runtimeError("send on closed channel")})
	}
	if r := popLive(&c.recvq); r != nil {
		r.val = v
		r.ok = true
		r.complete()
		return
	}
	c.buf = append(c.buf, v)
}

// doRecv performs a receive that is known not to block.
func (w *Worker) doRecv(c *channel) (value, bool) {
	if len(c.buf) > 0 {
		v := c.buf[0]
		c.buf = c.buf[1:]
		if s := popLive(&c.sendq); s != nil {
			c.buf = append(c.buf, s.val)
			s.complete()
		}
		return v, true
	}
	if s := popLive(&c.sendq); s != nil {
		v := s.val
		s.complete()
		return v, true
	}
	// closed
	return zero(c.elem), false
}

func (w *Worker) chanSend(fr *frame, cv value, v value) {
	c, ok := cv.(*channel)
	if !ok {
		panic(unsupported{fmt.Sprintf("send on %T", cv)})
	}
	s := &w.sched
	g := fr.g
	g.waitFn = repoFn(fr)
	s.point(g, "send")
	v = copyVal(v)
	if c == nil {
		g.forever = true
		s.block(g, "send on nil channel")
	}
	if c.canSend() {
		w.doSend(c, v)
		return
	}
	wt := &waiter{g: g, isSend: true, val: v}
	c.sendq = append(c.sendq, wt)
	for !wt.done {
		s.block(g, fmt.Sprintf("chan send #%d", c.id))
	}
	if wt.closedP {
		panic(targetPanic{w.runtimeError("send on closed channel")})
	}
}

func (w *Worker) chanRecv(fr *frame, instr *ssa.UnOp, cv value) value {
	c, ok := cv.(*channel)
	if !ok {
		panic(unsupported{fmt.Sprintf("receive from %T", cv)})
	}
	s := &w.sched
	g := fr.g
	g.waitFn = repoFn(fr)
	s.point(g, "recv")
	var v value
	var rok bool
	if c == nil {
		g.forever = true
		s.block(g, "receive from nil channel")
	}
	if c.canRecv() {
		v, rok = w.doRecv(c)
	} else {
		wt := &waiter{g: g}
		c.recvq = append(c.recvq, wt)
		for !wt.done {
			s.block(g, fmt.Sprintf("chan receive #%d", c.id))
		}
		v, rok = wt.val, wt.ok
		if !rok {
			v = zero(c.elem)
		}
	}
	if instr.CommaOk {
		return tuple{v, rok}
	}
	return v
}

func (w *Worker) chanClose(fr *frame, cv value) {
	c, ok := cv.(*channel)
	if !ok {
		panic(unsupported{fmt.Sprintf("close of %T", cv)})
	}
	if c == nil {
		panic(targetPanic{w.runtimeError("close of nil channel")})
	}
	if fr != nil {
		w.sched.point(fr.g, "close")
	}
	if c.closed {
		panic(targetPanic{w.runtimeError("close of closed channel")})
	}
	c.closed = true
	for {
		r := popLive(&c.recvq)
		if r == nil {
			break
		}
		r.ok = false
		r.val = nil
		r.complete()
	}
	for {
		sd := popLive(&c.sendq)
		if sd == nil {
			break
		}
		sd.closedP = true
		sd.complete()
	}
}

func (w *Worker) selectOp(fr *frame, instr *ssa.Select) value {
	s := &w.sched
	g := fr.g
	g.waitFn = repoFn(fr)
	s.point(g, "select")
	type cs struct {
		c    *channel
		send bool
		val  value
	}
	cases := make([]cs, len(instr.States))
	var ready []int
	for i, st := range instr.States {
		cv := fr.get(st.Chan)
		c, ok := cv.(*channel)
		if !ok {
			panic(unsupported{fmt.Sprintf("select on %T", cv)})
		}
		cases[i] = cs{c: c, send: st.Dir == types.SendOnly}
		if cases[i].send {
			cases[i].val = copyVal(fr.get(st.Send))
		}
		if c == nil {
			continue
		}
		if cases[i].send && c.canSend() || !cases[i].send && c.canRecv() {
			ready = append(ready, i)
		}
	}
	chosen := -1
	var recvVal value
	recvOk := false
	if len(ready) > 0 {
		k := 0
		if len(ready) > 1 {
			k = w.choose(len(ready), "select")
		}
		chosen = ready[k]
		if cases[chosen].send {
			w.doSend(cases[chosen].c, cases[chosen].val)
		} else {
			recvVal, recvOk = w.doRecv(cases[chosen].c)
		}
	} else if instr.Blocking {
		sw := &selWait{}
		ws := make([]*waiter, len(cases))
		any := false
		for i, c := range cases {
			if c.c == nil {
				continue
			}
			any = true
			wt := &waiter{g: g, isSend: c.send, val: c.val, sel: sw, caseIdx: i}
			ws[i] = wt
			if c.send {
				c.c.sendq = append(c.c.sendq, wt)
			} else {
				c.c.recvq = append(c.c.recvq, wt)
			}
		}
		if !any {
			g.forever = true
		}
		for !sw.fired {
			s.block(g, "select")
		}
		chosen = sw.idx
		wt := ws[chosen]
		if wt.closedP {
			panic(targetPanic{w.runtimeError("send on closed channel")})
		}
		if !cases[chosen].send {
			recvVal, recvOk = wt.val, wt.ok
		}
	}
	r := tuple{chosen, recvOk}
	for i, st := range instr.States {
		if st.Dir == types.RecvOnly {
			var v value
			if i == chosen && recvOk {
				v = recvVal
			} else {
				v = zero(st.Chan.Type().Underlying().(*types.Chan).Elem())
			}
			r = append(r, v)
		}
	}
	return r
}

// ---------------------------------------------------------------------------------------------
// timers

func (s *scheduler) fire(t *timer) {
	w := s.w
	t.fires++
	s.timerFires++
	if !t.periodic {
		t.armed = false
	}
	if w.ex.opt.Trace {
		w.trace = append(w.trace, fmt.Sprintf("fire timer %d", t.id))
	}
	if t.fn != nil {
		// AfterFunc: runs f in its own goroutine
		g := s.newG()
		g.isHost = true
		g.parked = true
		g.name = "timer.AfterFunc"
		s.hostWG.Add(1)
		fn := t.fn
		go func() {
			defer s.hostWG.Done()
			defer func() { g.exited = true }()
			if ok := <-g.wake; !ok {
				return
			}
			g.parked = false
			var end *pathEnd
			func() {
				defer func() {
					if r := recover(); r != nil {
						if _, isAbort := r.(abortG); isAbort {
							end = &pathEnd{kind: "abort"}
							return
						}
						e := w.classifyPanic(r, g)
						end = &e
					}
				}()
				w.call(nil, g, fn, nil)
			}()
			g.done = true
			if end != nil {
				if end.kind == "abort" {
					return
				}
				s.pendingEnd = end
				s.gs[0].wake <- false
				return
			}
			s.exitSwitch(g)
		}()
		return
	}
	// channel timer: non-blocking send of the current time
	if t.ch.canSend() && !t.ch.closed {
		w.doSend(t.ch, w.timeNowValue())
	}
}
