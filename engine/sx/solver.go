package sx

import (
	"bufio"
	"fmt"
	"io"
	"os"
	"os/exec"
	"strconv"
	"strings"
	"time"
)

// Result of a satisfiability query.
type Result int

const (
	Unsat Result = iota
	Sat
	Unknown
)

func (r Result) String() string { return [...]string{"unsat", "sat", "unknown"}[r] }

// SolverStats are accumulated per worker and merged by the driver.
type SolverStats struct {
	Queries       int
	Sat           int
	Unsat         int
	Unknown       int
	Errors        int
	Fallbacks     int
	Restarts      int
	CrossChecked  int
	CrossDisagree int
	Time          time.Duration
	ByBackend     map[string]int
}

func (s *SolverStats) add(o *SolverStats) {
	s.Queries += o.Queries
	s.Sat += o.Sat
	s.Unsat += o.Unsat
	s.Unknown += o.Unknown
	s.CrossChecked += o.CrossChecked
	s.CrossDisagree += o.CrossDisagree
	s.Errors += o.Errors
	s.Fallbacks += o.Fallbacks
	s.Restarts += o.Restarts
	s.Time += o.Time
	if s.ByBackend == nil {
		s.ByBackend = map[string]int{}
	}
	for k, v := range o.ByBackend {
		s.ByBackend[k] += v
	}
}

type proc struct {
	kind  string
	cmd   *exec.Cmd
	in    io.WriteCloser
	out   *bufio.Reader
	lines chan string
}

func backendArgs(kind string, timeoutMs int) (string, []string, string) {
	switch kind {
	case "z3":
		return "z3", []string{"-in"}, fmt.Sprintf("(set-option :timeout %d)\n", timeoutMs)
	case "z3new":
		return "z3-new", []string{"-in"}, fmt.Sprintf("(set-option :timeout %d)\n", timeoutMs)
	case "cvc5":
		return "cvc5", []string{"--incremental", "--lang=smt2", "--produce-models", fmt.Sprintf("--tlimit-per=%d", timeoutMs)}, "(set-logic ALL)\n"
	case "cvc5int":
		return "cvc5", []string{"--incremental", "--lang=smt2", "--produce-models", "--solve-bv-as-int=sum", fmt.Sprintf("--tlimit-per=%d", timeoutMs)}, "(set-logic ALL)\n"
	}
	panic("unknown solver backend " + kind)
}

func startProc(kind string, timeoutMs int) (*proc, string, error) {
	bin, args, prelude := backendArgs(kind, timeoutMs)
	cmd := exec.Command(bin, args...)
	in, err := cmd.StdinPipe()
	if err != nil {
		return nil, "", err
	}
	out, err := cmd.StdoutPipe()
	if err != nil {
		return nil, "", err
	}
	cmd.Stderr = nil
	if err := cmd.Start(); err != nil {
		return nil, "", err
	}
	p := &proc{kind: kind, cmd: cmd, in: in, out: bufio.NewReaderSize(out, 1<<16), lines: make(chan string, 256)}
	go func() {
		for {
			l, err := p.out.ReadString('\n')
			if l != "" {
				p.lines <- strings.TrimRight(l, "\r\n")
			}
			if err != nil {
				close(p.lines)
				return
			}
		}
	}()
	return p, prelude, nil
}

func (p *proc) kill() {
	if p == nil {
		return
	}
	p.in.Close()
	if p.cmd.Process != nil {
		p.cmd.Process.Kill()
	}
	go func() {
		for range p.lines {
		}
	}()
	p.cmd.Wait()
}

// inc is one long-lived incremental solver process mirroring the current context.
type inc struct {
	kind      string
	p         *proc
	prelude   string
	sent      int
	needReset bool
}

// Solver is a pair of long-lived incremental solver processes with one-shot fall-backs.
type Solver struct {
	Primary   string
	Secondary string
	Fallback  []string
	TimeoutMs int
	QuickMs   int // first attempt on a z3 primary uses this shorter time-out
	Stats     SolverStats

	incs    map[string]*inc
	epoch   int32
	log     strings.Builder // everything sent since the last reset (definitions + base assertions)
	seq     int
	slowSeq int
	HardTo  string // backend that gets arithmetic-hard queries first ("" = none)
}

func NewSolver(primary string, fallback []string, timeoutMs int) *Solver {
	s := &Solver{Primary: primary, Fallback: fallback, TimeoutMs: timeoutMs, incs: map[string]*inc{}}
	s.Stats.ByBackend = map[string]int{}
	return s
}

func (s *Solver) Close() {
	for _, c := range s.incs {
		c.p.kill()
		c.p = nil
	}
}

// Reset starts a fresh context (new path).
func (s *Solver) Reset() {
	s.epoch++
	s.log.Reset()
	for _, c := range s.incs {
		c.sent = 0
		c.needReset = c.p != nil
	}
}

func (s *Solver) emit(str string) {
	s.log.WriteString(str)
}

func (s *Solver) define(t *Term) {
	if t.defEpoch == s.epoch {
		return
	}
	// iterative post-order to avoid deep recursion
	type fr struct {
		t *Term
		i int
	}
	stack := []fr{{t, 0}}
	for len(stack) > 0 {
		top := &stack[len(stack)-1]
		if top.t.defEpoch == s.epoch {
			stack = stack[:len(stack)-1]
			continue
		}
		if top.i < len(top.t.A) {
			a := top.t.A[top.i]
			top.i++
			if a.defEpoch != s.epoch {
				stack = append(stack, fr{a, 0})
			}
			continue
		}
		x := top.t
		x.defEpoch = s.epoch
		switch x.Op {
		case OpTrue, OpFalse, OpConst:
		case OpVar:
			s.emit(fmt.Sprintf("(declare-const %s %s)\n", x.ref(), sortSMT(x.W)))
		default:
			s.emit(fmt.Sprintf("(define-fun %s () %s %s)\n", x.ref(), sortSMT(x.W), x.body()))
		}
		stack = stack[:len(stack)-1]
	}
}

// Assert adds a permanent (for this path) constraint.
func (s *Solver) Assert(t *Term) {
	if t.IsTrue() {
		return
	}
	s.define(t)
	s.emit(fmt.Sprintf("(assert %s)\n", t.ref()))
}

// sync brings the incremental process of the given kind up to date with the context.
func (s *Solver) sync(kind string) *inc {
	c := s.incs[kind]
	if c == nil {
		c = &inc{kind: kind}
		s.incs[kind] = c
	}
	if c.p == nil {
		ms := s.TimeoutMs
		if strings.HasPrefix(kind, "cvc5") {
			ms = s.cvcIncMs()
		}
		p, prelude, err := startProc(kind, ms)
		if err != nil {
			panic(fmt.Sprintf("cannot start solver %s: %v", kind, err))
		}
		c.p, c.prelude, c.sent, c.needReset = p, prelude, 0, false
		io.WriteString(p.in, prelude)
	}
	if c.needReset {
		io.WriteString(c.p.in, "(reset)\n"+c.prelude)
		c.needReset = false
		c.sent = 0
	}
	if l := s.log.Len(); c.sent < l {
		io.WriteString(c.p.in, s.log.String()[c.sent:])
		c.sent = l
	}
	return c
}

// readUntil reads lines until the marker appears; returns the lines before it.
func (s *Solver) readUntil(p *proc, marker string, limit time.Duration) ([]string, bool) {
	var out []string
	timer := time.NewTimer(limit)
	defer timer.Stop()
	for {
		select {
		case l, ok := <-p.lines:
			if !ok {
				return out, false
			}
			if strings.Contains(l, marker) {
				return out, true
			}
			out = append(out, l)
		case <-timer.C:
			return out, false
		}
	}
}

// Check decides satisfiability of (path assertions ∧ extra). vars lists the variables whose
// values are wanted when the answer is sat.
func (s *Solver) Check(extra *Term, vars []*Term) (Result, map[string]uint64) {
	start := time.Now()
	defer func() { s.Stats.Time += time.Since(start) }()
	s.Stats.Queries++
	if extra != nil {
		if extra.IsFalse() {
			s.Stats.Unsat++
			return Unsat, nil
		}
		s.define(extra)
	}
	for _, v := range vars {
		s.define(v)
	}
	var q strings.Builder
	q.WriteString("(push 1)\n")
	if extra != nil && !extra.IsTrue() {
		fmt.Fprintf(&q, "(assert %s)\n", extra.ref())
	}
	q.WriteString("(check-sat)\n")
	query := q.String()

	res, model := Unknown, map[string]uint64(nil)
	hard := extra != nil && extra.hard
	type attempt struct {
		kind string
		ms   int
	}
	first, second := s.Primary, s.Secondary
	if hard && s.HardTo != "" {
		first, second = s.HardTo, s.Primary
	}
	quick := s.QuickMs
	if quick <= 0 || quick > s.TimeoutMs {
		quick = s.TimeoutMs
	}
	plan := []attempt{{first, quick}}
	if second != "" && second != first {
		plan = append(plan, attempt{second, s.TimeoutMs})
	}
	if quick < s.TimeoutMs {
		plan = append(plan, attempt{first, s.TimeoutMs})
	}
	tried := map[string]bool{}
	for _, a := range plan {
		tried[a.kind] = true
		s.Stats.ByBackend[a.kind]++
		if strings.HasPrefix(a.kind, "cvc5") && a.ms > s.cvcIncMs() {
			// the incremental cvc5 process runs with the short limit; longer attempts are one-shot
			res, model = s.oneShotMs(a.kind, a.ms, query, vars)
		} else {
			res, model = s.incCheck(a.kind, a.ms, query, vars)
		}
		if res != Unknown {
			break
		}
	}
	if res == Unknown {
		for _, fb := range s.Fallback {
			if tried[fb] {
				continue
			}
			s.Stats.Fallbacks++
			s.Stats.ByBackend[fb]++
			res, model = s.oneShot(fb, query, vars)
			if res != Unknown {
				break
			}
		}
	}
	if CrossCheck && res != Unknown {
		// differential mode: ask the other back end the same question and count disagreements
		used := plan[0].kind
		for _, a := range plan {
			if tried[a.kind] {
				used = a.kind
			}
		}
		other := s.Secondary
		if other == used {
			other = s.Primary
		}
		if other != "" {
			if other != used {
				r2, _ := s.incCheck(other, s.TimeoutMs, query, nil)
				s.Stats.CrossChecked++
				if r2 != Unknown && r2 != res {
					s.Stats.CrossDisagree++
					name := fmt.Sprintf("/tmp/gosmt_disagree_%d_%d.smt2", os.Getpid(), s.Stats.CrossDisagree)
					os.WriteFile(name, []byte(s.log.String()+query), 0o644)
					fmt.Fprintf(os.Stderr, "SOLVER-DISAGREEMENT %s=%v %s=%v dumped to %s\n", used, res, other, r2, name)
				}
			}
		}
	}
	switch res {
	case Sat:
		s.Stats.Sat++
	case Unsat:
		s.Stats.Unsat++
	default:
		s.Stats.Unknown++
	}
	if d := time.Since(start); DebugSlow > 0 && d > DebugSlow {
		s.slowSeq++
		name := fmt.Sprintf("/tmp/gosmt_slow_%d_%d.smt2", os.Getpid(), s.slowSeq)
		os.WriteFile(name, []byte(s.log.String()+query), 0o644)
		fmt.Fprintf(os.Stderr, "slow query %.1fs result=%v hard=%v dumped to %s\n", d.Seconds(), res, hard, name)
	}
	return res, model
}

// DebugSlow, when >0, dumps queries slower than this to /tmp.
var DebugSlow time.Duration

// CrossCheck makes every decided query be asked of the second back end too (GOSMT_CROSSCHECK=1).
var CrossCheck bool

func getValueCmd(vars []*Term) string {
	if len(vars) == 0 {
		return ""
	}
	var sb strings.Builder
	sb.WriteString("(get-value (")
	for i, v := range vars {
		if i > 0 {
			sb.WriteByte(' ')
		}
		sb.WriteString(v.ref())
	}
	sb.WriteString("))\n")
	return sb.String()
}

func (s *Solver) incCheck(kind string, ms int, query string, vars []*Term) (Result, map[string]uint64) {
	c := s.sync(kind)
	s.seq++
	m1 := fmt.Sprintf("DONE_A_%d", s.seq)
	pre := ""
	if strings.HasPrefix(kind, "z3") {
		pre = fmt.Sprintf("(set-option :timeout %d)\n", ms)
	}
	io.WriteString(c.p.in, pre+query+fmt.Sprintf("(echo \"%s\")\n", m1))
	limit := time.Duration(ms)*time.Millisecond*2 + 10*time.Second
	restart := func() {
		s.Stats.Restarts++
		c.p.kill()
		c.p = nil
	}
	lines, ok := s.readUntil(c.p, m1, limit)
	if !ok {
		restart()
		return Unknown, nil
	}
	res := parseResult(lines, &s.Stats)
	var model map[string]uint64
	if res == Sat && len(vars) > 0 {
		m2 := fmt.Sprintf("DONE_B_%d", s.seq)
		io.WriteString(c.p.in, getValueCmd(vars)+fmt.Sprintf("(echo \"%s\")\n", m2))
		ml, ok := s.readUntil(c.p, m2, limit)
		if !ok {
			restart()
			return Unknown, nil
		}
		model = parseModel(strings.Join(ml, " "))
	}
	io.WriteString(c.p.in, "(pop 1)\n")
	return res, model
}

func parseResult(lines []string, st *SolverStats) Result {
	res := Unknown
	seen := false
	for _, l := range lines {
		l = strings.TrimSpace(l)
		switch {
		case strings.HasPrefix(l, "(error"):
			st.Errors++
			return Unknown
		case l == "sat":
			res, seen = Sat, true
		case l == "unsat":
			res, seen = Unsat, true
		case l == "unknown" || l == "timeout":
			res, seen = Unknown, true
		}
	}
	_ = seen
	return res
}

// oneShot runs the complete context plus the query in a fresh process of another backend.
func (s *Solver) oneShot(kind string, query string, vars []*Term) (Result, map[string]uint64) {
	return s.oneShotMs(kind, s.TimeoutMs, query, vars)
}

func (s *Solver) cvcIncMs() int {
	q := s.QuickMs
	if q <= 0 || q > s.TimeoutMs {
		return s.TimeoutMs
	}
	return q
}

func (s *Solver) oneShotMs(kind string, ms int, query string, vars []*Term) (Result, map[string]uint64) {
	p, prelude, err := startProc(kind, ms)
	if err != nil {
		return Unknown, nil
	}
	defer p.kill()
	var sb strings.Builder
	sb.WriteString(prelude)
	if strings.HasPrefix(kind, "z3") {
		sb.WriteString("(set-option :produce-models true)\n")
	}
	sb.WriteString(s.log.String())
	sb.WriteString(query)
	sb.WriteString("(echo \"DONE_A\")\n")
	io.WriteString(p.in, sb.String())
	limit := time.Duration(ms)*time.Millisecond*2 + 10*time.Second
	lines, ok := s.readUntil(p, "DONE_A", limit)
	if !ok {
		return Unknown, nil
	}
	res := parseResult(lines, &s.Stats)
	var model map[string]uint64
	if res == Sat && len(vars) > 0 {
		io.WriteString(p.in, getValueCmd(vars)+"(echo \"DONE_B\")\n")
		ml, ok := s.readUntil(p, "DONE_B", limit)
		if !ok {
			return Unknown, nil
		}
		model = parseModel(strings.Join(ml, " "))
	}
	return res, model
}

// parseModel parses the reply of get-value: ((|name| #x..) (|name| true) ...)
func parseModel(s string) map[string]uint64 {
	m := map[string]uint64{}
	i := 0
	n := len(s)
	skip := func() {
		for i < n && (s[i] == ' ' || s[i] == '\t' || s[i] == '\n') {
			i++
		}
	}
	skip()
	if i < n && s[i] == '(' {
		i++
	}
	for {
		skip()
		if i >= n || s[i] != '(' {
			break
		}
		i++
		skip()
		var name string
		if i < n && s[i] == '|' {
			j := strings.IndexByte(s[i+1:], '|')
			if j < 0 {
				break
			}
			name = s[i+1 : i+1+j]
			i = i + 1 + j + 1
		} else {
			j := i
			for j < n && s[j] != ' ' && s[j] != ')' {
				j++
			}
			name = s[i:j]
			i = j
		}
		skip()
		// value: #x.., #b.., true, false, (_ bvN W)
		var val uint64
		if strings.HasPrefix(s[i:], "#x") {
			j := i + 2
			for j < n && isHex(s[j]) {
				j++
			}
			val, _ = strconv.ParseUint(s[i+2:j], 16, 64)
			i = j
		} else if strings.HasPrefix(s[i:], "#b") {
			j := i + 2
			for j < n && (s[j] == '0' || s[j] == '1') {
				j++
			}
			val, _ = strconv.ParseUint(s[i+2:j], 2, 64)
			i = j
		} else if strings.HasPrefix(s[i:], "true") {
			val = 1
			i += 4
		} else if strings.HasPrefix(s[i:], "false") {
			val = 0
			i += 5
		} else if strings.HasPrefix(s[i:], "(_ bv") {
			j := i + 5
			k := j
			for k < n && s[k] >= '0' && s[k] <= '9' {
				k++
			}
			val, _ = strconv.ParseUint(s[j:k], 10, 64)
			for k < n && s[k] != ')' {
				k++
			}
			i = k + 1
		}
		m[name] = val
		skip()
		if i < n && s[i] == ')' {
			i++
		}
	}
	return m
}

func isHex(c byte) bool {
	return c >= '0' && c <= '9' || c >= 'a' && c <= 'f' || c >= 'A' && c <= 'F'
}

// Script returns the context accumulated since the last reset (for diagnostics / cross-checks).
func (s *Solver) Script() string { return s.log.String() }
