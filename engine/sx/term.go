// Package sx is a symbolic executor for Go SSA (golang.org/x/tools/go/ssa) backed by SMT solvers.
//
// The concrete instruction semantics follow golang.org/x/tools/go/ssa/interp (BSD licence, The Go
// Authors); values additionally may be *Term (symbolic booleans / bit-vectors).
package sx

import (
	"fmt"
	"math/bits"
	"strings"
)

// Op is a term operator.
type Op uint8

const (
	OpVar Op = iota
	OpConst
	OpTrue
	OpFalse
	OpNot
	OpAnd
	OpOr
	OpIte
	OpEq
	OpAdd
	OpSub
	OpMul
	OpUDiv
	OpSDiv
	OpURem
	OpSRem
	OpBAnd
	OpBOr
	OpBXor
	OpBNot
	OpNeg
	OpShl
	OpLShr
	OpAShr
	OpULt
	OpULe
	OpSLt
	OpSLe
	OpConcat
	OpExtract // c = hi<<8 | lo
	OpZExt    // c = extra bits
	OpSExt    // c = extra bits
)

var opSMT = map[Op]string{
	OpNot: "not", OpAnd: "and", OpOr: "or", OpIte: "ite", OpEq: "=",
	OpAdd: "bvadd", OpSub: "bvsub", OpMul: "bvmul", OpUDiv: "bvudiv", OpSDiv: "bvsdiv",
	OpURem: "bvurem", OpSRem: "bvsrem", OpBAnd: "bvand", OpBOr: "bvor", OpBXor: "bvxor",
	OpBNot: "bvnot", OpNeg: "bvneg", OpShl: "bvshl", OpLShr: "bvlshr", OpAShr: "bvashr",
	OpULt: "bvult", OpULe: "bvule", OpSLt: "bvslt", OpSLe: "bvsle", OpConcat: "concat",
}

// Term is a hash-consed SMT term.  W==0 means Bool, otherwise a bit-vector of width W (<=64).
type Term struct {
	ID   int32
	Op   Op
	W    int
	A    []*Term
	C    uint64
	Name string
	// solver bookkeeping
	defEpoch int32
	hard     bool // cone contains non-linear / division arithmetic
	ctree    bool // constant, or an ite tree whose leaves are all constants
	csize    int  // number of ite nodes in such a tree
}

type termKey struct {
	op         Op
	w          int
	c          uint64
	a0, a1, a2 int32
	name       string
}

// TermTable hash-conses terms. One per worker, reset per path.
type TermTable struct {
	m    map[termKey]*Term
	next int32
	vars []*Term
	tt   *Term
	ff   *Term
}

func NewTermTable() *TermTable {
	t := &TermTable{m: make(map[termKey]*Term)}
	t.tt = t.mk(OpTrue, 0, 0, "", nil)
	t.ff = t.mk(OpFalse, 0, 0, "", nil)
	return t
}

func (tt *TermTable) mk(op Op, w int, c uint64, name string, a []*Term) *Term {
	k := termKey{op: op, w: w, c: c, name: name, a0: -1, a1: -1, a2: -1}
	if len(a) > 0 {
		k.a0 = a[0].ID
	}
	if len(a) > 1 {
		k.a1 = a[1].ID
	}
	if len(a) > 2 {
		k.a2 = a[2].ID
	}
	if t, ok := tt.m[k]; ok {
		return t
	}
	t := &Term{ID: tt.next, Op: op, W: w, A: a, C: c, Name: name, defEpoch: -1}
	tt.next++
	switch op {
	case OpConst, OpTrue, OpFalse:
		t.ctree = true
	case OpIte:
		if a[1].ctree && a[2].ctree {
			t.ctree = true
			t.csize = 1 + a[1].csize + a[2].csize
		}
	}
	switch op {
	case OpMul, OpUDiv, OpSDiv, OpURem, OpSRem:
		// multiplication/division by a power of two is cheap; everything else is "hard"
		t.hard = true
		if len(a) == 2 && a[1].Op == OpConst && bits.OnesCount64(a[1].C) <= 1 {
			t.hard = false
		}
		if len(a) == 2 && a[0].Op == OpConst && bits.OnesCount64(a[0].C) <= 1 && op == OpMul {
			t.hard = false
		}
	}
	for _, x := range a {
		if x.hard {
			t.hard = true
		}
	}
	tt.m[k] = t
	if op == OpVar {
		tt.vars = append(tt.vars, t)
	}
	return t
}

func mask(w int) uint64 {
	if w >= 64 {
		return ^uint64(0)
	}
	return (uint64(1) << uint(w)) - 1
}

func sext(c uint64, w int) int64 {
	if w >= 64 {
		return int64(c)
	}
	sh := uint(64 - w)
	return int64(c<<sh) >> sh
}

func (tt *TermTable) True() *Term  { return tt.tt }
func (tt *TermTable) False() *Term { return tt.ff }
func (tt *TermTable) Bool(b bool) *Term {
	if b {
		return tt.tt
	}
	return tt.ff
}

func (tt *TermTable) Const(w int, c uint64) *Term {
	if w == 0 {
		return tt.Bool(c != 0)
	}
	return tt.mk(OpConst, w, c&mask(w), "", nil)
}

func (tt *TermTable) Var(name string, w int) *Term {
	return tt.mk(OpVar, w, 0, name, nil)
}

func (t *Term) IsConst() bool { return t.Op == OpConst || t.Op == OpTrue || t.Op == OpFalse }
func (t *Term) IsTrue() bool  { return t.Op == OpTrue }
func (t *Term) IsFalse() bool { return t.Op == OpFalse }

func (tt *TermTable) Not(a *Term) *Term {
	switch a.Op {
	case OpTrue:
		return tt.ff
	case OpFalse:
		return tt.tt
	case OpNot:
		return a.A[0]
	}
	return tt.mk(OpNot, 0, 0, "", []*Term{a})
}

func (tt *TermTable) And(a, b *Term) *Term {
	if a.IsFalse() || b.IsFalse() {
		return tt.ff
	}
	if a.IsTrue() {
		return b
	}
	if b.IsTrue() {
		return a
	}
	if a == b {
		return a
	}
	if a.ID > b.ID {
		a, b = b, a
	}
	return tt.mk(OpAnd, 0, 0, "", []*Term{a, b})
}

func (tt *TermTable) Or(a, b *Term) *Term {
	if a.IsTrue() || b.IsTrue() {
		return tt.tt
	}
	if a.IsFalse() {
		return b
	}
	if b.IsFalse() {
		return a
	}
	if a == b {
		return a
	}
	if a.ID > b.ID {
		a, b = b, a
	}
	return tt.mk(OpOr, 0, 0, "", []*Term{a, b})
}

func (tt *TermTable) Ite(c, a, b *Term) *Term {
	if c.IsTrue() {
		return a
	}
	if c.IsFalse() {
		return b
	}
	if a == b {
		return a
	}
	if a.W == 0 {
		if a.IsTrue() && b.IsFalse() {
			return c
		}
		if a.IsFalse() && b.IsTrue() {
			return tt.Not(c)
		}
	}
	return tt.mk(OpIte, a.W, 0, "", []*Term{c, a, b})
}

func (tt *TermTable) Eq(a, b *Term) *Term {
	if a == b {
		return tt.tt
	}
	if a.W != b.W {
		panic(fmt.Sprintf("Eq width mismatch %d vs %d", a.W, b.W))
	}
	if a.IsConst() && b.IsConst() {
		if a.W == 0 {
			return tt.Bool(a.Op == b.Op)
		}
		return tt.Bool(a.C == b.C)
	}
	if a.W == 0 {
		if a.IsTrue() {
			return b
		}
		if b.IsTrue() {
			return a
		}
		if a.IsFalse() {
			return tt.Not(b)
		}
		if b.IsFalse() {
			return tt.Not(a)
		}
	}
	// ite(c, k1, k2) == k  with distinct constants
	if b.IsConst() && a.Op == OpIte && a.A[1].IsConst() && a.A[2].IsConst() && a.W > 0 {
		x, y := a.A[1].C == b.C, a.A[2].C == b.C
		switch {
		case x && y:
			return tt.tt
		case x:
			return a.A[0]
		case y:
			return tt.Not(a.A[0])
		default:
			return tt.ff
		}
	}
	if a.ID > b.ID {
		a, b = b, a
	}
	return tt.mk(OpEq, 0, 0, "", []*Term{a, b})
}

// mapLeaves rebuilds a constant-leaf ite tree with f applied to every leaf.
func (tt *TermTable) mapLeaves(t *Term, f func(*Term) *Term, memo map[int32]*Term) *Term {
	if t.Op != OpIte {
		return f(t)
	}
	if r, ok := memo[t.ID]; ok {
		return r
	}
	r := tt.Ite(t.A[0], tt.mapLeaves(t.A[1], f, memo), tt.mapLeaves(t.A[2], f, memo))
	memo[t.ID] = r
	return r
}

const liftLimit = 256

// Bin builds a binary bit-vector operation (result width = operand width) with constant folding.
func (tt *TermTable) Bin(op Op, a, b *Term) *Term {
	if a.W != b.W || a.W == 0 {
		panic(fmt.Sprintf("Bin %v width mismatch %d vs %d", op, a.W, b.W))
	}
	w := a.W
	if a.Op == OpConst && b.Op == OpConst {
		if c, ok := foldBin(op, w, a.C, b.C); ok {
			return tt.Const(w, c)
		}
	}
	// ite lifting: op(ite-tree-of-constants, k) = ite-tree of folded constants (no arithmetic left)
	if a.Op == OpIte && a.ctree && a.csize <= liftLimit && b.Op == OpConst {
		if !((op == OpSDiv || op == OpSRem) && b.C == 0) {
			return tt.mapLeaves(a, func(l *Term) *Term { return tt.Bin(op, l, b) }, map[int32]*Term{})
		}
	}
	if b.Op == OpIte && b.ctree && b.csize <= liftLimit && a.Op == OpConst {
		if op != OpSDiv && op != OpSRem && op != OpUDiv && op != OpURem {
			return tt.mapLeaves(b, func(l *Term) *Term { return tt.Bin(op, a, l) }, map[int32]*Term{})
		}
	}
	switch op {
	case OpAdd:
		if a.Op == OpConst && a.C == 0 {
			return b
		}
		if b.Op == OpConst && b.C == 0 {
			return a
		}
		// (x + c1) + c2 => x + (c1+c2)
		if b.Op == OpConst && a.Op == OpAdd && a.A[1].Op == OpConst {
			return tt.Bin(OpAdd, a.A[0], tt.Const(w, a.A[1].C+b.C))
		}
		if a.Op == OpConst {
			a, b = b, a
		}
	case OpSub:
		if b.Op == OpConst && b.C == 0 {
			return a
		}
		if a == b {
			return tt.Const(w, 0)
		}
		if b.Op == OpConst {
			return tt.Bin(OpAdd, a, tt.Const(w, -b.C))
		}
	case OpMul:
		if a.Op == OpConst {
			a, b = b, a
		}
		if b.Op == OpConst {
			if b.C == 0 {
				return b
			}
			if b.C == 1 {
				return a
			}
		}
	case OpBAnd:
		if a.Op == OpConst {
			a, b = b, a
		}
		if b.Op == OpConst {
			if b.C == 0 {
				return b
			}
			if b.C == mask(w) {
				return a
			}
		}
		if a == b {
			return a
		}
	case OpBOr:
		if a.Op == OpConst {
			a, b = b, a
		}
		if b.Op == OpConst {
			if b.C == 0 {
				return a
			}
			if b.C == mask(w) {
				return b
			}
		}
		if a == b {
			return a
		}
	case OpBXor:
		if a.Op == OpConst {
			a, b = b, a
		}
		if b.Op == OpConst && b.C == 0 {
			return a
		}
		if a == b {
			return tt.Const(w, 0)
		}
	case OpShl, OpLShr, OpAShr:
		if b.Op == OpConst && b.C == 0 {
			return a
		}
	case OpUDiv:
		if b.Op == OpConst && b.C == 1 {
			return a
		}
	}
	return tt.mk(op, w, 0, "", []*Term{a, b})
}

func foldBin(op Op, w int, x, y uint64) (uint64, bool) {
	m := mask(w)
	switch op {
	case OpAdd:
		return (x + y) & m, true
	case OpSub:
		return (x - y) & m, true
	case OpMul:
		return (x * y) & m, true
	case OpUDiv:
		if y == 0 {
			return m, true // SMT-LIB semantics
		}
		return x / y, true
	case OpURem:
		if y == 0 {
			return x, true
		}
		return x % y, true
	case OpSDiv:
		if y == 0 {
			return 0, false
		}
		sx, sy := sext(x, w), sext(y, w)
		if sy == -1 {
			return uint64(-sx) & m, true
		}
		return uint64(sx/sy) & m, true
	case OpSRem:
		if y == 0 {
			return 0, false
		}
		sx, sy := sext(x, w), sext(y, w)
		if sy == -1 {
			return 0, true
		}
		return uint64(sx%sy) & m, true
	case OpBAnd:
		return x & y, true
	case OpBOr:
		return x | y, true
	case OpBXor:
		return x ^ y, true
	case OpShl:
		if y >= uint64(w) {
			return 0, true
		}
		return (x << y) & m, true
	case OpLShr:
		if y >= uint64(w) {
			return 0, true
		}
		return x >> y, true
	case OpAShr:
		sx := sext(x, w)
		if y >= uint64(w) {
			y = uint64(w - 1)
		}
		return uint64(sx>>y) & m, true
	}
	return 0, false
}

// Cmp builds a comparison (ULt, ULe, SLt, SLe).
func (tt *TermTable) Cmp(op Op, a, b *Term) *Term {
	if a.W != b.W || a.W == 0 {
		panic(fmt.Sprintf("Cmp width mismatch %d vs %d", a.W, b.W))
	}
	if a.Op == OpConst && b.Op == OpConst {
		switch op {
		case OpULt:
			return tt.Bool(a.C < b.C)
		case OpULe:
			return tt.Bool(a.C <= b.C)
		case OpSLt:
			return tt.Bool(sext(a.C, a.W) < sext(b.C, b.W))
		case OpSLe:
			return tt.Bool(sext(a.C, a.W) <= sext(b.C, b.W))
		}
	}
	if a == b {
		return tt.Bool(op == OpULe || op == OpSLe)
	}
	if a.Op == OpIte && a.ctree && a.csize <= liftLimit && b.Op == OpConst {
		return tt.mapLeaves(a, func(l *Term) *Term { return tt.Cmp(op, l, b) }, map[int32]*Term{})
	}
	if b.Op == OpIte && b.ctree && b.csize <= liftLimit && a.Op == OpConst {
		return tt.mapLeaves(b, func(l *Term) *Term { return tt.Cmp(op, a, l) }, map[int32]*Term{})
	}
	if op == OpULt && b.Op == OpConst && b.C == 0 {
		return tt.ff
	}
	if op == OpULe && a.Op == OpConst && a.C == 0 {
		return tt.tt
	}
	return tt.mk(op, 0, 0, "", []*Term{a, b})
}

func (tt *TermTable) BNot(a *Term) *Term {
	if a.Op == OpConst {
		return tt.Const(a.W, ^a.C)
	}
	if a.Op == OpBNot {
		return a.A[0]
	}
	return tt.mk(OpBNot, a.W, 0, "", []*Term{a})
}

func (tt *TermTable) Neg(a *Term) *Term {
	if a.Op == OpConst {
		return tt.Const(a.W, -a.C)
	}
	return tt.mk(OpNeg, a.W, 0, "", []*Term{a})
}

// Extract bits [hi:lo].
func (tt *TermTable) Extract(a *Term, hi, lo int) *Term {
	w := hi - lo + 1
	if lo == 0 && w == a.W {
		return a
	}
	if a.Op == OpConst {
		return tt.Const(w, a.C>>uint(lo))
	}
	if (a.Op == OpZExt || a.Op == OpSExt) && hi < a.A[0].W {
		return tt.Extract(a.A[0], hi, lo)
	}
	if a.Op == OpZExt && lo >= a.A[0].W {
		return tt.Const(w, 0)
	}
	if a.Op == OpConcat {
		lw := a.A[1].W
		if hi < lw {
			return tt.Extract(a.A[1], hi, lo)
		}
		if lo >= lw {
			return tt.Extract(a.A[0], hi-lw, lo-lw)
		}
	}
	return tt.mk(OpExtract, w, uint64(hi)<<8|uint64(lo), "", []*Term{a})
}

func (tt *TermTable) ZExt(a *Term, to int) *Term {
	if to == a.W {
		return a
	}
	if to < a.W {
		return tt.Extract(a, to-1, 0)
	}
	if a.Op == OpConst {
		return tt.Const(to, a.C)
	}
	if a.Op == OpZExt {
		return tt.ZExt(a.A[0], to)
	}
	return tt.mk(OpZExt, to, uint64(to-a.W), "", []*Term{a})
}

func (tt *TermTable) SExt(a *Term, to int) *Term {
	if to == a.W {
		return a
	}
	if to < a.W {
		return tt.Extract(a, to-1, 0)
	}
	if a.Op == OpConst {
		return tt.Const(to, uint64(sext(a.C, a.W)))
	}
	if a.Op == OpZExt {
		// zero-extended value is non-negative: sign-extension == zero-extension
		return tt.ZExt(a.A[0], to)
	}
	return tt.mk(OpSExt, to, uint64(to-a.W), "", []*Term{a})
}

func (tt *TermTable) Concat(hi, lo *Term) *Term {
	if hi.Op == OpConst && lo.Op == OpConst {
		return tt.Const(hi.W+lo.W, hi.C<<uint(lo.W)|lo.C)
	}
	if hi.Op == OpConst && hi.C == 0 {
		return tt.ZExt(lo, hi.W+lo.W)
	}
	return tt.mk(OpConcat, hi.W+lo.W, 0, "", []*Term{hi, lo})
}

func sortSMT(w int) string {
	if w == 0 {
		return "Bool"
	}
	return fmt.Sprintf("(_ BitVec %d)", w)
}

func constSMT(w int, c uint64) string {
	if w%4 == 0 {
		return fmt.Sprintf("#x%0*x", w/4, c)
	}
	return fmt.Sprintf("#b%0*b", w, c)
}

// ref is how a term is referred to inside other expressions.
func (t *Term) ref() string {
	switch t.Op {
	case OpTrue:
		return "true"
	case OpFalse:
		return "false"
	case OpConst:
		return constSMT(t.W, t.C)
	case OpVar:
		return "|" + t.Name + "|"
	}
	return fmt.Sprintf("t%d", t.ID)
}

// body renders the defining expression of t over refs of its arguments.
func (t *Term) body() string {
	var sb strings.Builder
	switch t.Op {
	case OpExtract:
		fmt.Fprintf(&sb, "((_ extract %d %d) %s)", t.C>>8, t.C&0xff, t.A[0].ref())
	case OpZExt:
		fmt.Fprintf(&sb, "((_ zero_extend %d) %s)", t.C, t.A[0].ref())
	case OpSExt:
		fmt.Fprintf(&sb, "((_ sign_extend %d) %s)", t.C, t.A[0].ref())
	default:
		sb.WriteByte('(')
		sb.WriteString(opSMT[t.Op])
		for _, a := range t.A {
			sb.WriteByte(' ')
			sb.WriteString(a.ref())
		}
		sb.WriteByte(')')
	}
	return sb.String()
}

// Eval evaluates t under an assignment of variables (by name). Missing variables are 0.
func (t *Term) Eval(env map[string]uint64, memo map[int32]uint64) uint64 {
	if v, ok := memo[t.ID]; ok {
		return v
	}
	var r uint64
	b2u := func(b bool) uint64 {
		if b {
			return 1
		}
		return 0
	}
	ev := func(i int) uint64 { return t.A[i].Eval(env, memo) }
	switch t.Op {
	case OpVar:
		r = env[t.Name] & maskB(t.W)
	case OpConst:
		r = t.C
	case OpTrue:
		r = 1
	case OpFalse:
		r = 0
	case OpNot:
		r = 1 - ev(0)
	case OpAnd:
		r = ev(0) & ev(1)
	case OpOr:
		r = ev(0) | ev(1)
	case OpIte:
		if ev(0) != 0 {
			r = ev(1)
		} else {
			r = ev(2)
		}
	case OpEq:
		r = b2u(ev(0) == ev(1))
	case OpULt:
		r = b2u(ev(0) < ev(1))
	case OpULe:
		r = b2u(ev(0) <= ev(1))
	case OpSLt:
		r = b2u(sext(ev(0), t.A[0].W) < sext(ev(1), t.A[0].W))
	case OpSLe:
		r = b2u(sext(ev(0), t.A[0].W) <= sext(ev(1), t.A[0].W))
	case OpBNot:
		r = ^ev(0) & mask(t.W)
	case OpNeg:
		r = -ev(0) & mask(t.W)
	case OpExtract:
		r = (ev(0) >> (t.C & 0xff)) & mask(t.W)
	case OpZExt:
		r = ev(0)
	case OpSExt:
		r = uint64(sext(ev(0), t.A[0].W)) & mask(t.W)
	case OpConcat:
		r = ev(0)<<uint(t.A[1].W) | ev(1)
	case OpSDiv, OpSRem:
		x, y := ev(0), ev(1)
		if y == 0 {
			// SMT-LIB: sdiv by zero = (x<0 ? 1 : -1), srem = x
			if t.Op == OpSRem {
				r = x
			} else if sext(x, t.W) < 0 {
				r = 1
			} else {
				r = mask(t.W)
			}
		} else {
			r, _ = foldBin(t.Op, t.W, x, y)
		}
	default:
		r, _ = foldBin(t.Op, t.W, ev(0), ev(1))
	}
	memo[t.ID] = r
	return r
}

func maskB(w int) uint64 {
	if w == 0 {
		return 1
	}
	return mask(w)
}
