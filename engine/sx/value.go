package sx

// Values. All interpreter values are boxed in the empty interface `value`, as in
// golang.org/x/tools/go/ssa/interp, with these dynamic types:
//
//   bool, int..int64, uint..uint64, uintptr, float32, float64, complex64/128, string   concrete scalars
//   *Term            symbolic bool (W==0) or integer (bit-vector of the Go width)
//   *symStr          string of concrete length whose bytes may be symbolic
//   *opqStr          string of symbolic length and unobservable content
//   *value           pointer;  structure, array  aggregates;  []value  slices
//   *omap            maps (insertion ordered, deterministic iteration)
//   *channel         channels
//   iface, tuple, *closure, *ssa.Function, *ssa.Builtin, iter, rtype, **deferred, poison

import (
	"fmt"
	"go/types"
	"math"
	"strings"
	"unsafe"

	"golang.org/x/tools/go/ssa"
)

type value interface{}

type tuple []value

type array []value

type iface struct {
	t types.Type // never an "untyped" type
	v value
}

type structure []value

type iter interface {
	next() tuple
}

type closure struct {
	Fn  *ssa.Function
	Env []value
}

type bad struct{}

// poison marks a value whose initialiser could not be executed.
type poison struct{ why string }

// symStr is a string of concrete length; each element is uint8 or *Term(W=8).
type symStr struct{ b []value }

// opqStr is a string whose length is symbolic and whose content cannot be observed.
type opqStr struct {
	n  value // int or *Term(W=64)
	id int
}

// unsafePtr models unsafe.Pointer as a tagged reference to an interpreter object.
type unsafePtr struct {
	p value // *value, or nil
}

func strLen(w *Worker, s value) value {
	switch s := s.(type) {
	case string:
		return len(s)
	case *symStr:
		return len(s.b)
	case *opqStr:
		return s.n
	}
	panic(unsupported{fmt.Sprintf("strLen %T", s)})
}

// normStr turns a byte vector into string when every byte is concrete.
func normStr(b []value) value {
	for _, x := range b {
		if _, ok := x.(uint8); !ok {
			return &symStr{b: b}
		}
	}
	bs := make([]byte, len(b))
	for i, x := range b {
		bs[i] = x.(uint8)
	}
	return string(bs)
}

func strBytes(s value) []value {
	switch s := s.(type) {
	case string:
		r := make([]value, len(s))
		for i := 0; i < len(s); i++ {
			r[i] = s[i]
		}
		return r
	case *symStr:
		return s.b
	}
	panic(unsupported{fmt.Sprintf("strBytes %T", s)})
}

// ---------------------------------------------------------------------------------------------
// ordered maps

type mentry struct {
	key     value
	val     value
	deleted bool
	symKey  bool
}

type omap struct {
	keyType types.Type
	entries []*mentry
	idx     map[interface{}]*mentry
	n       int
	nsym    int // live + deleted entries with symbolic keys
}

func newOmap(kt types.Type) *omap {
	return &omap{keyType: kt, idx: make(map[interface{}]*mentry)}
}

// mapKey returns a comparable host key for a concrete interpreter value.
func mapKey(v value) interface{} {
	switch v := v.(type) {
	case bool, int, int8, int16, int32, int64, uint, uint8, uint16, uint32, uint64, uintptr, float32, float64, complex64, complex128, string, *value, *channel:
		return v
	case nil:
		return nil
	case structure:
		var sb strings.Builder
		sb.WriteString("S{")
		for _, f := range v {
			fmt.Fprintf(&sb, "%v|", mapKey(f))
		}
		sb.WriteString("}")
		return sb.String()
	case array:
		var sb strings.Builder
		sb.WriteString("A[")
		for _, f := range v {
			fmt.Fprintf(&sb, "%v|", mapKey(f))
		}
		sb.WriteString("]")
		return sb.String()
	case iface:
		if v.t == nil {
			return "I<nil>"
		}
		return fmt.Sprintf("I<%s>%v", v.t.String(), mapKey(v.v))
	case rtype:
		return "T<" + v.t.String() + ">"
	case unsafePtr:
		return fmt.Sprintf("U%v", mapKey(v.p))
	case *Term, *symStr, *opqStr:
		panic(unsupported{"symbolic map key reached mapKey"})
	}
	panic(unsupported{fmt.Sprintf("unhashable map key %T", v)})
}

func (m *omap) lookup(k value) (value, bool) {
	if m == nil {
		return nil, false
	}
	e, ok := m.idx[mapKey(k)]
	if !ok {
		return nil, false
	}
	return e.val, true
}

func (m *omap) len() int {
	if m == nil {
		return 0
	}
	return m.n
}

type omapIter struct {
	m *omap
	i int
}

func (it *omapIter) next() tuple {
	if it.m != nil {
		for it.i < len(it.m.entries) {
			e := it.m.entries[it.i]
			it.i++
			if !e.deleted {
				return tuple{true, e.key, e.val}
			}
		}
	}
	return tuple{false, nil, nil}
}

type stringIter struct {
	s string
	i int
}

func (it *stringIter) next() tuple {
	if it.i >= len(it.s) {
		return tuple{false, nil, nil}
	}
	var r rune
	n := 0
	for j, c := range it.s[it.i:] {
		if j == 0 {
			r = c
			continue
		}
		n = j
		break
	}
	if n == 0 {
		n = len(it.s) - it.i
	}
	k := it.i
	it.i += n
	return tuple{true, k, r}
}

// ---------------------------------------------------------------------------------------------
// type helpers

func deref(t types.Type) types.Type {
	if p, ok := t.Underlying().(*types.Pointer); ok {
		return p.Elem()
	}
	if p, ok := coreType(t).(*types.Pointer); ok {
		return p.Elem()
	}
	panic(fmt.Sprintf("deref of non-pointer %s", t))
}

func coreType(t types.Type) types.Type {
	return t.Underlying()
}

// intInfo reports width and signedness for integer basic kinds.
func intInfo(t types.Type) (w int, signed bool, ok bool) {
	b, isB := t.Underlying().(*types.Basic)
	if !isB {
		return 0, false, false
	}
	switch b.Kind() {
	case types.Int, types.Int64, types.UntypedInt:
		return 64, true, true
	case types.Int8:
		return 8, true, true
	case types.Int16:
		return 16, true, true
	case types.Int32, types.UntypedRune:
		return 32, true, true
	case types.Uint, types.Uint64, types.Uintptr:
		return 64, false, true
	case types.Uint8:
		return 8, false, true
	case types.Uint16:
		return 16, false, true
	case types.Uint32:
		return 32, false, true
	}
	return 0, false, false
}

// bitsOf returns the bit pattern of a concrete integer value.
func bitsOf(v value) (uint64, bool) {
	switch x := v.(type) {
	case int:
		return uint64(x), true
	case int8:
		return uint64(uint8(x)), true
	case int16:
		return uint64(uint16(x)), true
	case int32:
		return uint64(uint32(x)), true
	case int64:
		return uint64(x), true
	case uint:
		return uint64(x), true
	case uint8:
		return uint64(x), true
	case uint16:
		return uint64(x), true
	case uint32:
		return uint64(x), true
	case uint64:
		return x, true
	case uintptr:
		return uint64(x), true
	}
	return 0, false
}

// fromBits builds the concrete value of integer kind k from a bit pattern.
func fromBits(t types.Type, c uint64) value {
	b := t.Underlying().(*types.Basic)
	switch b.Kind() {
	case types.Bool, types.UntypedBool:
		return c != 0
	case types.Int, types.UntypedInt:
		return int(c)
	case types.Int8:
		return int8(c)
	case types.Int16:
		return int16(c)
	case types.Int32, types.UntypedRune:
		return int32(c)
	case types.Int64:
		return int64(c)
	case types.Uint:
		return uint(c)
	case types.Uint8:
		return uint8(c)
	case types.Uint16:
		return uint16(c)
	case types.Uint32:
		return uint32(c)
	case types.Uint64:
		return c
	case types.Uintptr:
		return uintptr(c)
	}
	panic(fmt.Sprintf("fromBits: %s", t))
}

// asInt64 converts a concrete integer to int64 (sign- or zero-extending by its dynamic type).
func asInt64(x value) int64 {
	switch x := x.(type) {
	case int:
		return int64(x)
	case int8:
		return int64(x)
	case int16:
		return int64(x)
	case int32:
		return int64(x)
	case int64:
		return x
	case uint:
		return int64(x)
	case uint8:
		return int64(x)
	case uint16:
		return int64(x)
	case uint32:
		return int64(x)
	case uint64:
		return int64(x)
	case uintptr:
		return int64(x)
	}
	panic(unsupported{fmt.Sprintf("cannot convert %T to int64", x)})
}

// zero returns a new "zero" value of the specified type.
func zero(t types.Type) value {
	switch t := t.(type) {
	case *types.Basic:
		if t.Kind() == types.UntypedNil {
			panic("untyped nil has no zero value")
		}
		if t.Info()&types.IsUntyped != 0 {
			t = types.Default(t).(*types.Basic)
		}
		switch t.Kind() {
		case types.Bool:
			return false
		case types.Int:
			return int(0)
		case types.Int8:
			return int8(0)
		case types.Int16:
			return int16(0)
		case types.Int32:
			return int32(0)
		case types.Int64:
			return int64(0)
		case types.Uint:
			return uint(0)
		case types.Uint8:
			return uint8(0)
		case types.Uint16:
			return uint16(0)
		case types.Uint32:
			return uint32(0)
		case types.Uint64:
			return uint64(0)
		case types.Uintptr:
			return uintptr(0)
		case types.Float32:
			return float32(0)
		case types.Float64:
			return float64(0)
		case types.Complex64:
			return complex64(0)
		case types.Complex128:
			return complex128(0)
		case types.String:
			return ""
		case types.UnsafePointer:
			return unsafePtr{}
		default:
			panic(fmt.Sprint("zero for unexpected type:", t))
		}
	case *types.Pointer:
		return (*value)(nil)
	case *types.Array:
		a := make(array, t.Len())
		for i := range a {
			a[i] = zero(t.Elem())
		}
		return a
	case *types.Named:
		return zero(t.Underlying())
	case *types.Alias:
		return zero(types.Unalias(t))
	case *types.Interface:
		return iface{} // nil type, methodset and value
	case *types.Slice:
		return []value(nil)
	case *types.Struct:
		s := make(structure, t.NumFields())
		for i := range s {
			s[i] = zero(t.Field(i).Type())
		}
		return s
	case *types.Tuple:
		if t.Len() == 1 {
			return zero(t.At(0).Type())
		}
		s := make(tuple, t.Len())
		for i := range s {
			s[i] = zero(t.At(i).Type())
		}
		return s
	case *types.Chan:
		return (*channel)(nil)
	case *types.Map:
		return (*omap)(nil)
	case *types.Signature:
		return (*ssa.Function)(nil)
	case *types.TypeParam:
		panic(unsupported{"zero of type parameter " + t.String()})
	}
	panic(fmt.Sprint("zero: unexpected ", t))
}

// load returns the value of type T in *addr.
func load(T types.Type, addr *value) value {
	switch T := T.Underlying().(type) {
	case *types.Struct:
		v, ok := (*addr).(structure)
		if !ok {
			return *addr // e.g. poison
		}
		a := make(structure, len(v))
		for i := range a {
			a[i] = load(T.Field(i).Type(), &v[i])
		}
		return a
	case *types.Array:
		v, ok := (*addr).(array)
		if !ok {
			return *addr
		}
		a := make(array, len(v))
		for i := range a {
			a[i] = load(T.Elem(), &v[i])
		}
		return a
	default:
		return *addr
	}
}

// store stores value v of type T into *addr.
func (w *Worker) store(T types.Type, addr *value, v value) {
	switch T := T.Underlying().(type) {
	case *types.Struct:
		lhs, ok1 := (*addr).(structure)
		rhs, ok2 := v.(structure)
		if !ok1 || !ok2 {
			w.logStore(addr)
			*addr = v
			return
		}
		for i := range lhs {
			w.store(T.Field(i).Type(), &lhs[i], rhs[i])
		}
	case *types.Array:
		lhs, ok1 := (*addr).(array)
		rhs, ok2 := v.(array)
		if !ok1 || !ok2 {
			w.logStore(addr)
			*addr = v
			return
		}
		for i := range lhs {
			w.store(T.Elem(), &lhs[i], rhs[i])
		}
	default:
		w.logStore(addr)
		*addr = v
	}
}

// copyVal makes an unaliased copy of an aggregate value.
func copyVal(v value) value {
	switch v := v.(type) {
	case structure:
		a := make(structure, len(v))
		for i := range v {
			a[i] = copyVal(v[i])
		}
		return a
	case array:
		a := make(array, len(v))
		for i := range v {
			a[i] = copyVal(v[i])
		}
		return a
	}
	return v
}

// nil-tolerant variant of types.Identical.
func sameType(x, y types.Type) bool {
	if x == nil {
		return y == nil
	}
	return y != nil && types.Identical(x, y)
}

// eqv returns x == y for type t as bool or *Term.
func (w *Worker) eqv(t types.Type, x, y value) value {
	if tx, ok := x.(*Term); ok {
		return w.eqTerm(tx, w.lift(y, tx.W))
	}
	if ty, ok := y.(*Term); ok {
		return w.eqTerm(w.lift(x, ty.W), ty)
	}
	switch x := x.(type) {
	case bool, int, int8, int16, int32, int64, uint, uint8, uint16, uint32, uint64, uintptr, float32, float64, complex64, complex128:
		return x == y
	case string:
		switch y := y.(type) {
		case string:
			return x == y
		case *symStr:
			return w.symStrEq(strBytes(x), y.b)
		}
	case *symStr:
		switch y := y.(type) {
		case string:
			return w.symStrEq(x.b, strBytes(y))
		case *symStr:
			return w.symStrEq(x.b, y.b)
		}
	case *opqStr:
		if y, ok := y.(*opqStr); ok && y.id == x.id {
			return true
		}
		// comparing an opaque string with the empty string only needs its length
		if ys, ok := y.(string); ok && ys == "" {
			return w.eqv(types.Typ[types.Int], x.n, 0)
		}
		panic(unsupported{"comparison of opaque string content"})
	case floatSym:
		return w.floatEq(x, y)
	case *value:
		return x == y.(*value)
	case *channel:
		return x == y.(*channel)
	case unsafePtr:
		return x == y.(unsafePtr)
	case structure:
		yy := y.(structure)
		tStruct := t.Underlying().(*types.Struct)
		var acc value = true
		for i, n := 0, tStruct.NumFields(); i < n; i++ {
			if f := tStruct.Field(i); f.Name() != "_" {
				acc = w.andv(acc, w.eqv(f.Type(), x[i], yy[i]))
				if b, ok := acc.(bool); ok && !b {
					return false
				}
			}
		}
		return acc
	case array:
		yy := y.(array)
		tElt := t.Underlying().(*types.Array).Elem()
		var acc value = true
		for i := range x {
			acc = w.andv(acc, w.eqv(tElt, x[i], yy[i]))
			if b, ok := acc.(bool); ok && !b {
				return false
			}
		}
		return acc
	case iface:
		yy := y.(iface)
		if !sameType(x.t, yy.t) {
			return false
		}
		if x.t == nil {
			return true
		}
		return w.eqv(x.t, x.v, yy.v)
	case rtype:
		return types.Identical(x.t, y.(rtype).t)
	}
	if fy, ok := y.(floatSym); ok {
		return w.floatEq(fy, x)
	}
	if s, ok := y.(*opqStr); ok {
		if xs, ok := x.(string); ok && xs == "" {
			return w.eqv(types.Typ[types.Int], s.n, 0)
		}
		panic(unsupported{"comparison of opaque string content"})
	}
	panic(unsupported{fmt.Sprintf("comparing uncomparable type %s (%T)", t, x)})
}

func (w *Worker) symStrEq(a, b []value) value {
	if len(a) != len(b) {
		return false
	}
	var acc value = true
	for i := range a {
		acc = w.andv(acc, w.eqv(types.Typ[types.Uint8], a[i], b[i]))
		if bb, ok := acc.(bool); ok && !bb {
			return false
		}
	}
	return acc
}

// eqnil returns x == y where, for map/func/slice types, one operand is a literal nil.
func (w *Worker) eqnil(t types.Type, x, y value) value {
	switch t.Underlying().(type) {
	case *types.Map, *types.Signature, *types.Slice:
		return isNilRef(x) == isNilRef(y)
	}
	return w.eqv(t, x, y)
}

func isNilRef(x value) bool {
	switch x := x.(type) {
	case *omap:
		return x == nil
	case *ssa.Function:
		return x == nil
	case *closure:
		return x == nil
	case *ssa.Builtin:
		return x == nil
	case []value:
		return x == nil
	}
	panic(unsupported{fmt.Sprintf("isNilRef %T", x)})
}

// ---------------------------------------------------------------------------------------------
// printing (diagnostics only)

func toString(v value) string {
	var b strings.Builder
	writeValue(&b, v, 0)
	return b.String()
}

func writeValue(buf *strings.Builder, v value, depth int) {
	if depth > 4 {
		buf.WriteString("…")
		return
	}
	switch v := v.(type) {
	case nil, bool, int, int8, int16, int32, int64, uint, uint8, uint16, uint32, uint64, uintptr, float32, float64, complex64, complex128:
		fmt.Fprintf(buf, "%v", v)
	case string:
		fmt.Fprintf(buf, "%q", v)
	case *Term:
		fmt.Fprintf(buf, "<sym:%s>", v.ref())
	case *symStr:
		fmt.Fprintf(buf, "<symstr len=%d>", len(v.b))
	case *opqStr:
		fmt.Fprintf(buf, "<opqstr#%d>", v.id)
	case *omap:
		buf.WriteString("map[")
		if v != nil {
			sep := ""
			for _, e := range v.entries {
				if e.deleted {
					continue
				}
				buf.WriteString(sep)
				sep = " "
				writeValue(buf, e.key, depth+1)
				buf.WriteString(":")
				writeValue(buf, e.val, depth+1)
			}
		}
		buf.WriteString("]")
	case *channel:
		fmt.Fprintf(buf, "chan(%p)", v)
	case *value:
		if v == nil {
			buf.WriteString("<nil>")
		} else {
			fmt.Fprintf(buf, "&%p", v)
		}
	case iface:
		if v.t == nil {
			buf.WriteString("nil-iface")
			return
		}
		fmt.Fprintf(buf, "(%s, ", v.t)
		writeValue(buf, v.v, depth+1)
		buf.WriteString(")")
	case structure:
		buf.WriteString("{")
		for i, e := range v {
			if i > 0 {
				buf.WriteString(" ")
			}
			writeValue(buf, e, depth+1)
		}
		buf.WriteString("}")
	case array:
		buf.WriteString("[")
		for i, e := range v {
			if i > 0 {
				buf.WriteString(" ")
			}
			writeValue(buf, e, depth+1)
		}
		buf.WriteString("]")
	case []value:
		buf.WriteString("[")
		for i, e := range v {
			if i > 0 {
				buf.WriteString(" ")
			}
			writeValue(buf, e, depth+1)
		}
		buf.WriteString("]")
	case *ssa.Function, *ssa.Builtin, *closure:
		fmt.Fprintf(buf, "func(%p)", v)
	case rtype:
		buf.WriteString(v.t.String())
	case tuple:
		buf.WriteString("(")
		for i, e := range v {
			if i > 0 {
				buf.WriteString(", ")
			}
			writeValue(buf, e, depth+1)
		}
		buf.WriteString(")")
	case poison:
		buf.WriteString("<poison:" + v.why + ">")
	default:
		fmt.Fprintf(buf, "<%T>", v)
	}
}

var _ = unsafe.Pointer(nil)

// rtype is a placeholder for reflect types (reflection is not modelled).
type rtype struct {
	t types.Type
}

// floatEq is IEEE-754 equality of a float whose bit pattern is symbolic with another float:
// x == y iff neither is NaN and (the bit patterns are equal or both are zeros of either sign).
func (w *Worker) floatEq(x floatSym, y value) value {
	wd := x.bits.W
	var yb *Term
	switch y := y.(type) {
	case floatSym:
		yb = y.bits
	case float64:
		yb = w.tt.Const(64, math.Float64bits(y))
	case float32:
		yb = w.tt.Const(32, uint64(math.Float32bits(y)))
	default:
		panic(unsupported{fmt.Sprintf("comparing symbolic float with %T", y)})
	}
	if yb.W != wd {
		panic(unsupported{"comparing symbolic floats of different widths"})
	}
	absMask, inf := uint64(0x7fffffffffffffff), uint64(0x7ff0000000000000)
	if wd == 32 {
		absMask, inf = 0x7fffffff, 0x7f800000
	}
	abs := func(t *Term) *Term { return w.tt.Bin(OpBAnd, t, w.tt.Const(wd, absMask)) }
	notNaN := func(t *Term) *Term { return w.tt.Cmp(OpULe, abs(t), w.tt.Const(wd, inf)) }
	zero := func(t *Term) *Term { return w.tt.Eq(abs(t), w.tt.Const(wd, 0)) }
	r := w.tt.And(w.tt.And(notNaN(x.bits), notNaN(yb)), w.tt.Or(w.tt.Eq(x.bits, yb), w.tt.And(zero(x.bits), zero(yb))))
	if r.IsConst() {
		return r.IsTrue()
	}
	return r
}
