package PKGNAME

// C01 (concurrent consumers): a completion (OnDone) of one hand-off runs concurrently with the
// dequeue of the next request and/or another completion, every storage call being a scheduling
// point (a slow storage round trip); then the process dies and the next incarnation must hand off
// every accepted request that had no final outcome.  The durable list of dispatched requests has
// to reflect every hand-off whatever the interleaving.

import (
	"context"
	"errors"
	"sync"

	"go.opentelemetry.io/collector/exporter/exporterhelper/internal/experr"
	"go.opentelemetry.io/collector/extension/xextension/storage"
)

// vc01YieldStore is vc01Store whose every call is a scheduling point.
type vc01YieldStore struct{ s *vc01Store }

func (y vc01YieldStore) Get(ctx context.Context, key string) ([]byte, error) {
	vYield()
	return y.s.Get(ctx, key)
}

func (y vc01YieldStore) Set(ctx context.Context, key string, value []byte) error {
	vYield()
	return y.s.Set(ctx, key, value)
}

func (y vc01YieldStore) Delete(ctx context.Context, key string) error {
	vYield()
	return y.s.Delete(ctx, key)
}

func (y vc01YieldStore) Batch(ctx context.Context, ops ...*storage.Operation) error {
	vYield()
	return y.s.Batch(ctx, ops...)
}

func (y vc01YieldStore) Close(ctx context.Context) error { return y.s.Close(ctx) }

func VerifC01Concurrent() {
	n := vParam("requests")
	st := &vc01Store{m: map[string][]byte{}}
	led := &vc01Ledger{accepted: map[uint64]uint64{}, handed: map[uint64]int{}, final: map[uint64]int{}}
	vc01Led = led
	vc01EmptySeq = 0
	capacity := int64(n + 1)

	q := vc01NewQueue(capacity)
	q.initClient(context.Background(), vc01YieldStore{st})
	for i := 0; i < n; i++ {
		r := vc01Req{seq: uint64(i + 1), payload: vNondetUint64("payload")}
		if q.Offer(context.Background(), r) == nil {
			led.accepted[r.seq] = r.payload
			led.order = append(led.order, r.seq)
		}
	}
	// the first request is already with a consumer
	_, first, firstDone, ok := q.Read(context.Background())
	vAssert(ok, "read-returns-an-item-when-queue-non-empty")
	led.handed[first.seq]++
	led.dequeues++

	var mu sync.Mutex
	var wg sync.WaitGroup
	outcome := vChoice("first-outcome", 3)
	wg.Add(1)
	go func() { // consumer 1 finishes the first request
		defer wg.Done()
		switch outcome {
		case 0:
			firstDone.OnDone(nil)
			mu.Lock()
			led.final[first.seq]++
			mu.Unlock()
		case 1:
			firstDone.OnDone(errors.New("permanent failure"))
			mu.Lock()
			led.final[first.seq]++
			mu.Unlock()
		case 2:
			firstDone.OnDone(experr.NewShutdownErr(errors.New("stopping")))
		}
	}()
	for i := 1; i < n; i++ {
		wg.Add(1)
		go func() { // another consumer dequeues the next request and may finish it
			defer wg.Done()
			_, req, done, ok := q.Read(context.Background())
			if !ok {
				return
			}
			mu.Lock()
			led.handed[req.seq]++
			led.dequeues++
			mu.Unlock()
			if vChoice("later-finishes", 2) == 1 {
				done.OnDone(nil)
				mu.Lock()
				led.final[req.seq]++
				mu.Unlock()
			}
		}()
	}
	wg.Wait()
	vReach("consumers-done")
	// the process dies here (no shutdown); the medium survives
	led.diedInOperation = true
	crashed := vc01Incarnation(st, capacity, func(q2 *persistentQueue[vc01Req]) {
		var outs []vc01Out
		for q2.readIndex != q2.writeIndex {
			k := len(outs)
			led.read(q2, st, &outs)
			if len(outs) == k {
				return
			}
			o := outs[len(outs)-1]
			o.done.OnDone(nil)
			led.final[o.seq]++
		}
	})
	vAssert(!crashed, "final-incarnation-not-killed")
	for _, seq := range led.order {
		vAssert(led.final[seq] >= 1, "concurrent/accepted-request-reaches-a-final-outcome/"+led.scenario(seq))
	}
	vReach("drained")
}
