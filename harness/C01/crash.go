package PKGNAME

// C01: a script of L queue operations on persistentQueue[T] over a crash-injecting storage client.
// The process may die (panic of the storage client, recovered at the incarnation boundary, every
// in-memory object abandoned) before ANY storage call — including calls made while the next
// incarnation is still recovering.  Script, crash points, capacity and payload words are symbolic.

import (
	"context"
	"encoding/binary"
	"errors"

	"go.uber.org/multierr"
	"go.uber.org/zap"

	"go.opentelemetry.io/collector/component"
	"go.opentelemetry.io/collector/exporter/exporterhelper/internal/experr"
	"go.opentelemetry.io/collector/exporter/exporterhelper/internal/request"
	"go.opentelemetry.io/collector/extension/xextension/storage"
)

type vc01Req struct {
	seq     uint64 // concrete identity (position in the script)
	payload uint64 // symbolic content
	empty   bool   // encoded as a zero-length body (an empty pdata payload in protobuf); at most one per run
}

// vc01EmptySeq is the identity of the run's zero-length-encoded request (its body cannot carry one).
var vc01EmptySeq uint64

type vc01Enc struct{}

func (vc01Enc) Marshal(r vc01Req) ([]byte, error) {
	if r.empty {
		return []byte{}, nil
	}
	b := binary.LittleEndian.AppendUint64(nil, r.seq)
	return binary.LittleEndian.AppendUint64(b, r.payload), nil
}

func (vc01Enc) Unmarshal(b []byte) (vc01Req, error) {
	if len(b) == 0 && vc01EmptySeq != 0 {
		return vc01Req{seq: vc01EmptySeq, empty: true}, nil
	}
	if len(b) != 16 {
		return vc01Req{}, errors.New("corrupt request")
	}
	return vc01Req{seq: binary.LittleEndian.Uint64(b), payload: binary.LittleEndian.Uint64(b[8:])}, nil
}

type vc01Crash struct{}

// vc01Store is a storage.Client over a map with atomic Batch (the documented contract); the medium
// survives a crash, the client object does not.
type vc01Store struct {
	m       map[string][]byte
	ops     int
	crashAt int
	dead    bool
}

func (s *vc01Store) step() {
	if s.dead {
		panic(vc01Crash{}) // deferred calls running while the process dies must not reach the medium
	}
	s.ops++
	if s.ops == s.crashAt {
		s.dead = true
		panic(vc01Crash{})
	}
}

func (s *vc01Store) Get(_ context.Context, key string) ([]byte, error) {
	s.step()
	return s.m[key], nil
}

func (s *vc01Store) Set(_ context.Context, key string, value []byte) error {
	s.step()
	s.m[key] = append([]byte{}, value...) // a stored empty value is present, not nil
	return nil
}

func (s *vc01Store) Delete(_ context.Context, key string) error {
	s.step()
	delete(s.m, key)
	return nil
}

func (s *vc01Store) Batch(_ context.Context, ops ...*storage.Operation) error {
	s.step()
	for _, op := range ops {
		switch op.Type {
		case storage.Get:
			op.Value = s.m[op.Key]
		case storage.Set:
			s.m[op.Key] = append([]byte{}, op.Value...)
		case storage.Delete:
			delete(s.m, op.Key)
		}
	}
	return nil
}

func (s *vc01Store) Close(context.Context) error { return nil }

type vc01Ledger struct {
	accepted map[uint64]uint64 // seq -> payload
	handed   map[uint64]int
	final    map[uint64]int
	order    []uint64
	// scenario classification (only used to make assertion labels specific)
	dequeues        int
	diedInRecovery  bool
	diedInOperation bool
	inRecovery      bool
	// a start found more stored requests (queued + dispatched-unfinished) than the capacity admits
	recoveryOverCapacity bool
}

// scenario names the circumstances under which request seq went missing, so that different defects
// have different assertion labels (and therefore different known-finding fingerprints).
func (l *vc01Ledger) scenario(seq uint64) string {
	s := "never-dispatched"
	if l.handed[seq] > 0 {
		s = "was-dispatched"
	}
	switch {
	case l.diedInRecovery:
		s += "/death-during-recovery"
	case l.diedInOperation:
		s += "/death-during-operation"
	default:
		s += "/no-death"
	}
	if l.dequeues == 0 {
		s += "/no-dequeue-ever"
	}
	if l.recoveryOverCapacity {
		s += "/recovery-over-capacity"
	}
	return s
}

type vc01Out struct {
	seq  uint64
	done Done
}

func vc01NewQueue(capacity int64) *persistentQueue[vc01Req] {
	return newPersistentQueue[vc01Req](persistentQueueSettings[vc01Req]{
		sizer:     request.RequestsSizer[vc01Req]{},
		capacity:  capacity,
		encoding:  vc01Enc{},
		telemetry: component.TelemetrySettings{Logger: zap.NewNop()},
	}).(*persistentQueue[vc01Req])
}

// vc01Incarnation runs f on a fresh queue over the surviving medium; reports whether the process died.
func vc01Incarnation(st *vc01Store, capacity int64, f func(q *persistentQueue[vc01Req])) (crashed bool) {
	defer func() {
		if r := recover(); r != nil {
			if _, ok := r.(vc01Crash); ok {
				crashed = true
				return
			}
			panic(r)
		}
	}()
	st.dead = false
	st.ops = 0
	q := vc01NewQueue(capacity)
	if ri, err1 := bytesToItemIndex(st.m[readIndexKey]); err1 == nil {
		if wi, err2 := bytesToItemIndex(st.m[writeIndexKey]); err2 == nil {
			di, _ := bytesToItemIndexArray(st.m[currentlyDispatchedItemsKey])
			if int64(wi-ri)+int64(len(di)) > capacity {
				vc01Led.recoveryOverCapacity = true
			}
		}
	}
	vc01Led.inRecovery = true
	q.initClient(context.Background(), st) // recovery runs here and may itself be killed
	vc01Led.inRecovery = false
	f(q)
	return false
}

var vc01Led *vc01Ledger

func (l *vc01Ledger) read(q *persistentQueue[vc01Req], st *vc01Store, outs *[]vc01Out) {
	// every index in [ri, wi) is queued and not dispatched: its body must be present
	_, present := st.m[getItemKey(q.readIndex)]
	vAssert(present, "queued-index-has-a-stored-body/"+l.scenario(0))
	if !present {
		return
	}
	_, req, done, ok := q.Read(context.Background())
	vAssert(ok, "read-returns-an-item-when-queue-non-empty")
	if !ok {
		return
	}
	p, known := l.accepted[req.seq]
	vAssert(known, "handed-request-was-accepted")
	vAssert(p == req.payload, "handed-request-has-its-original-payload")
	l.handed[req.seq]++
	l.dequeues++
	*outs = append(*outs, vc01Out{seq: req.seq, done: done})
}

func VerifC01Crash() {
	L := vParam("L")
	crashes := vParam("crashes")
	pre := vParam("pre")
	capacity := vNondetInt64("capacity")
	vAssume(capacity >= 1 && capacity <= int64(L+pre)+1)
	st := &vc01Store{m: map[string][]byte{}}
	led := &vc01Ledger{accepted: map[uint64]uint64{}, handed: map[uint64]int{}, final: map[uint64]int{}}
	vc01Led = led
	vc01EmptySeq = 0
	step := 0
	nextSeq := uint64(1)
	for inc := 0; inc <= crashes && step < L; inc++ {
		st.crashAt = 0
		if inc < crashes {
			st.crashAt = vNondetInt("crash_before_op") // 0 (or beyond the last call) = this incarnation is not killed
			vAssume(st.crashAt >= 0 && st.crashAt <= 64)
		}
		cleanStop := false
		crashed := vc01Incarnation(st, capacity, func(q *persistentQueue[vc01Req]) {
			var outs []vc01Out
			if inc == 0 {
				// initial state: a few requests already offered (not counted in L)
				for i := 0; i < pre; i++ {
					r := vc01Req{seq: nextSeq, payload: vNondetUint64("payload")}
					if i == 0 && vParam("empty") == 1 {
						r = vc01Req{seq: nextSeq, empty: true}
						vc01EmptySeq = r.seq
					}
					nextSeq++
					if q.Offer(context.Background(), r) == nil {
						led.accepted[r.seq] = r.payload
						led.order = append(led.order, r.seq)
					}
				}
			}
			for step < L {
				step++
				switch vChoice("op", 7) {
				case 6: // the process dies right now (between two operations)
					if inc >= crashes {
						vAssume(false)
					}
					st.dead = true
					panic(vc01Crash{})
				case 0: // offer
					r := vc01Req{seq: nextSeq, payload: vNondetUint64("payload")}
					nextSeq++
					err := q.Offer(context.Background(), r)
					if err == nil {
						// accepted: from now on it must never be lost
						led.accepted[r.seq] = r.payload
						led.order = append(led.order, r.seq)
					} else {
						vAssert(errors.Is(err, ErrQueueIsFull), "offer-fails-only-when-full")
					}
				case 1: // read
					if q.readIndex == q.writeIndex {
						vAssume(false)
					}
					led.read(q, st, &outs)
				case 2, 3, 4: // complete the oldest outstanding hand-off
					if len(outs) == 0 {
						vAssume(false)
					}
					o := outs[0]
					outs = outs[1:]
					switch vChoice("outcome", 4) {
					case 3:
						// a request split by the batcher: one piece interrupted by shutdown, another piece failed;
						// the aggregated outcome is still an interruption, the request must stay stored
						o.done.OnDone(multierr.Append(experr.NewShutdownErr(errors.New("stopping")), errors.New("other piece failed")))
					case 0:
						o.done.OnDone(nil)
						led.final[o.seq]++
					case 1:
						o.done.OnDone(errors.New("permanent failure"))
						led.final[o.seq]++
					case 2:
						o.done.OnDone(experr.NewShutdownErr(errors.New("stopping")))
					}
					vAssume(vChoice("dummy", 1) == 0)
				case 5: // clean shutdown; in-flight hand-offs are interrupted by shutdown
					_ = q.Shutdown(context.Background())
					for _, o := range outs {
						o.done.OnDone(experr.NewShutdownErr(errors.New("stopping")))
					}
					outs = nil
					cleanStop = true
					return
				}
			}
		})
		if !crashed && !cleanStop {
			// the script ended with the process simply gone: a death while idle
			led.diedInOperation = true
		}
		if crashed {
			vReach("process-died")
			if led.inRecovery {
				led.diedInRecovery = true
			} else {
				led.diedInOperation = true
			}
			led.inRecovery = false
		}
	}
	// final incarnation: never killed; drain everything and complete every hand-off successfully
	st.crashAt = 0
	crashed := vc01Incarnation(st, capacity, func(q *persistentQueue[vc01Req]) {
		var outs []vc01Out
		for q.readIndex != q.writeIndex {
			n := len(outs)
			led.read(q, st, &outs)
			if len(outs) == n {
				return
			}
			o := outs[len(outs)-1]
			o.done.OnDone(nil)
			led.final[o.seq]++
		}
	})
	vAssert(!crashed, "final-incarnation-not-killed")
	for _, seq := range led.order {
		vAssert(led.final[seq] >= 1, "accepted-request-reaches-a-final-outcome/"+led.scenario(seq))
	}
	vReach("drained")
}
