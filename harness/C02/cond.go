package PKGNAME

// C02 (no lost wake-ups), the condition variable itself: W waiters with cancellable contexts,
// cancellations and S signals under every schedule within the bound.  At every quiescent point the
// bookkeeping matches reality (waiting == goroutines blocked in Wait, no stray token); a waiter that
// blocks later is released by the next Signal (so an earlier cancel/signal race left no damage); a
// final Broadcast releases everybody.

import (
	"context"
	"sync"
)

func VerifC02Cond() {
	W, S := vParam("waiters"), vParam("signals")
	var mu sync.Mutex
	c := newCond(&mu)
	blocked, woken, cancelled := 0, 0, 0
	wait := func(ctx context.Context) {
		mu.Lock()
		blocked++
		err := c.Wait(ctx)
		blocked--
		if err == nil {
			woken++
		} else {
			cancelled++
		}
		mu.Unlock()
	}
	for i := 0; i < W; i++ {
		ctx, cancel := context.WithCancel(context.Background())
		go wait(ctx)
		if vChoice("waiter-is-cancelled", 2) == 1 {
			go cancel()
		}
		_ = cancel
	}
	sent := 0
	for i := 0; i < S; i++ {
		mu.Lock()
		if c.waiting > 0 {
			sent++
		}
		c.Signal()
		mu.Unlock()
	}
	vSettle()
	mu.Lock()
	vAssert(c.waiting == int64(blocked), "cond/waiting-count-equals-goroutines-blocked-in-wait")
	vAssert(len(c.ch) == 0 || blocked == 0, "cond/no-token-left-while-a-waiter-is-blocked")
	vAssert(woken <= sent, "cond/no-more-wake-ups-than-signals-that-found-a-waiter")
	vAssert(woken+cancelled+blocked == W, "cond/every-waiter-accounted-for")
	stray := len(c.ch)
	mu.Unlock()
	// second episode: a waiter that blocks now is released by the next signal
	before := woken
	go wait(context.Background())
	vSettle()
	mu.Lock()
	late := blocked
	c.Signal()
	mu.Unlock()
	vSettle()
	mu.Lock()
	if late > 0 {
		vAssert(woken > before, "cond/a-later-waiter-is-released-by-the-next-signal")
	}
	_ = stray
	c.Broadcast()
	mu.Unlock()
	vSettle()
	vAssert(vLiveGoroutines() == 0, "cond/broadcast-releases-every-waiter")
	vReach("end")
}
