package PKGNAME

// C02: the in-memory sending queue.
//  (a) VerifC02Accounting — sequential, sizes fully symbolic: refusal iff size+s > capacity,
//      reported size = sum of accepted-unfinished sizes, FIFO, zero-sized requests.
//  (b) VerifC02Concurrent — producers (blocking on overflow, cancellable), consumers and Shutdown
//      under the scheduler: exactly-once hand-off, bounded size, no lost wake-ups (no deadlock).

import (
	"context"
	"errors"
	"sync"

	"go.opentelemetry.io/collector/exporter/exporterhelper/internal/request"
)

type vc02Req struct {
	id   int
	size int64
}

type vc02Sizer struct{}

func (vc02Sizer) Sizeof(r vc02Req) int64 { return r.size }

var _ request.Sizer[vc02Req] = vc02Sizer{}

func VerifC02Accounting() {
	capacity := vNondetInt64("capacity")
	vAssume(capacity > 0 && capacity <= 1<<61) // above 2^62 size+request wraps around int64: outside the claim
	q := newMemoryQueue[vc02Req](memoryQueueSettings[vc02Req]{sizer: vc02Sizer{}, capacity: capacity}).(*memoryQueue[vc02Req])
	type acc struct {
		id   int
		size int64
	}
	var queued []acc  // accepted, not yet handed over (FIFO)
	var inflight []struct {
		a    acc
		done Done
	}
	var ledger int64 // sum of accepted-but-unfinished sizes
	K := vParam("steps")
	nextID := 0
	for i := 0; i < K; i++ {
		switch vChoice("op", 3) {
		case 0: // offer
			s := vNondetInt64("size")
			vAssume(s >= 0 && s <= 1<<62) // sizers never return negative sizes
			before := q.Size()
			err := q.Offer(context.Background(), vc02Req{id: nextID, size: s})
			switch {
			case s == 0:
				vAssert(err == nil, "accounting/zero-sized-request-is-acknowledged")
				vAssert(q.Size() == before, "accounting/zero-sized-request-takes-no-space")
			case before+s > capacity:
				vAssert(err != nil, "accounting/refused-when-size-plus-request-exceeds-capacity")
				vAssert(q.Size() == before, "accounting/refusal-leaves-size-unchanged")
				vReach("refused")
			default:
				vAssert(err == nil, "accounting/accepted-when-it-fits")
				queued = append(queued, acc{id: nextID, size: s})
				ledger += s
				vReach("accepted")
			}
			nextID++
		case 1: // read
			if len(queued) == 0 {
				vAssert(!q.items.hasElements(), "accounting/queue-empty-when-ledger-empty")
				vAssume(false)
			}
			_, r, done, ok := q.Read(context.Background())
			vAssert(ok, "accounting/read-returns-an-item")
			vAssert(r.id == queued[0].id && r.size == queued[0].size, "accounting/hand-off-order-is-acceptance-order")
			inflight = append(inflight, struct {
				a    acc
				done Done
			}{queued[0], done})
			queued = queued[1:]
		case 2: // complete the oldest hand-off
			if len(inflight) == 0 {
				vAssume(false)
			}
			inflight[0].done.OnDone(nil)
			ledger -= inflight[0].a.size
			inflight = inflight[1:]
		}
		sz := q.Size()
		vAssert(sz == ledger, "accounting/size-equals-sum-of-accepted-unfinished")
		vAssert(sz >= 0, "accounting/size-never-negative")
		vAssert(sz <= capacity, "accounting/size-never-exceeds-capacity")
		if len(queued) == 0 && len(inflight) == 0 {
			vAssert(sz == 0, "accounting/size-zero-when-everything-finished")
		}
	}
	vReach("end")
}

// ---- (b) ------------------------------------------------------------------------------------

type vc02Outcome struct{ id int }

func (e *vc02Outcome) Error() string { return "tagged outcome" }

func VerifC02Concurrent() {
	capacity := int64(1 + vChoice("capacity", 2))
	waitForResult := vParam("wait_for_result") == 1
	q := newMemoryQueue[vc02Req](memoryQueueSettings[vc02Req]{sizer: vc02Sizer{}, capacity: capacity,
		blockOnOverflow: true, waitForResult: waitForResult}).(*memoryQueue[vc02Req])
	P := vParam("producers")
	C := vParam("consumers")
	// the queue starts full: `capacity` requests of size 1 accepted earlier (ids P, P+1, ...)
	pre := 0
	if vParam("prefill") == 1 {
		pre = int(capacity)
		for i := 0; i < pre; i++ {
			vAssert(q.Offer(context.Background(), vc02Req{id: P + i, size: 1}) == nil, "concurrent/prefill-accepted")
		}
	}
	var mu sync.Mutex // protects the ledger (harness bookkeeping only)
	offerErr := make([]error, P)
	handed := make([]int, P+pre)
	finished := make([]bool, P)
	cancelled := make([]bool, P)
	var order []int
	// with wait_for_result every request is completed with its own tagged outcome
	outcome := make([]error, P+pre)
	for i := range outcome {
		if waitForResult {
			outcome[i] = &vc02Outcome{id: i}
		}
	}
	var producers sync.WaitGroup
	producers.Add(P)
	cancels := make([]context.CancelFunc, P)
	for p := 0; p < P; p++ {
		ctx, cancel := context.WithCancel(context.Background())
		cancels[p] = cancel
		p := p
		size := int64(1)
		go func() {
			defer producers.Done()
			err := q.Offer(ctx, vc02Req{id: p, size: size})
			mu.Lock()
			offerErr[p] = err
			finished[p] = true
			mu.Unlock()
		}()
	}
	// cancellers: each producer's context may be cancelled at any point
	nCancel := vParam("cancellers")
	for p := 0; p < nCancel; p++ {
		p := p
		go func() {
			mu.Lock()
			cancelled[p] = true
			mu.Unlock()
			cancels[p]()
		}()
	}
	var consumers sync.WaitGroup
	consumers.Add(C)
	for c := 0; c < C; c++ {
		go func() {
			defer consumers.Done()
			var held []Done
			var heldIDs []int
			for {
				_, r, done, ok := q.Read(context.Background())
				if !ok {
					for i, d := range held {
						d.OnDone(outcome[heldIDs[i]])
					}
					return
				}
				mu.Lock()
				handed[r.id]++
				order = append(order, r.id)
				mu.Unlock()
				sz := q.Size()
				vAssert(sz >= 0 && sz <= capacity, "concurrent/size-within-bounds")
				// a consumer may hold a few hand-offs (a batcher does) and complete them in a row
				held = append(held, done)
				heldIDs = append(heldIDs, r.id)
				if len(held) < 2 && q.items.hasElements() && vChoice("hold", 2) == 1 {
					continue
				}
				for i, d := range held {
					d.OnDone(outcome[heldIDs[i]])
				}
				held, heldIDs = nil, nil
			}
		}()
	}
	producers.Wait() // no producer stays blocked: every Offer returns (accepted, or its context was cancelled)
	vAssert(q.Shutdown(context.Background()) == nil, "concurrent/shutdown-ok")
	consumers.Wait()
	for p := 0; p < P; p++ {
		vAssert(finished[p], "concurrent/every-offer-returns")
		switch {
		case waitForResult && offerErr[p] != nil && !errors.Is(offerErr[p], context.Canceled):
			// the producer waited for the result: it must be the outcome of ITS OWN request
			vAssert(offerErr[p] == outcome[p], "concurrent/wait-for-result-returns-the-outcome-of-its-own-request")
			vAssert(handed[p] == 1, "concurrent/accepted-request-handed-over-exactly-once")
		case offerErr[p] == nil:
			vAssert(!waitForResult, "concurrent/wait-for-result-never-returns-nil-for-a-failed-request")
			vAssert(handed[p] == 1, "concurrent/accepted-request-handed-over-exactly-once")
		case errors.Is(offerErr[p], context.Canceled):
			vAssert(cancelled[p], "concurrent/context-error-only-if-that-context-was-cancelled")
			if !waitForResult {
				vAssert(handed[p] == 0, "concurrent/refused-request-never-handed-over")
			} else {
				vAssert(handed[p] <= 1, "concurrent/never-handed-over-twice")
			}
		default:
			vAssert(false, "concurrent/unexpected-offer-error")
		}
	}
	for i := 0; i < pre; i++ {
		vAssert(handed[P+i] == 1, "concurrent/accepted-request-handed-over-exactly-once")
	}
	vAssert(q.Size() == 0, "concurrent/size-zero-when-everything-finished")
	vSettle()
	vAssert(vLiveGoroutines() == 0, "concurrent/no-goroutine-left")
	vReach("end")
}

// VerifC02TwoConsumers: two idle consumers, two requests accepted close together; every consumer
// that received a request stays busy until ALL accepted requests have been handed over.  A
// consumer left sleeping while an accepted request sits in the queue (lost wake-up on the
// consumer side) shows up as a deadlock.
func VerifC02TwoConsumers() {
	q := newMemoryQueue[vc02Req](memoryQueueSettings[vc02Req]{sizer: vc02Sizer{}, capacity: 4}).(*memoryQueue[vc02Req])
	N := vParam("requests")
	C := vParam("consumers")
	var handedWG, consumers sync.WaitGroup
	handedWG.Add(N)
	consumers.Add(C)
	release := make(chan struct{})
	handed := make([]int, N)
	var mu sync.Mutex
	for c := 0; c < C; c++ {
		go func() {
			defer consumers.Done()
			for {
				_, r, done, ok := q.Read(context.Background())
				if !ok {
					return
				}
				mu.Lock()
				handed[r.id]++
				mu.Unlock()
				handedWG.Done()
				<-release // busy with this request until everything accepted has been handed to somebody
				done.OnDone(nil)
			}
		}()
	}
	vSettle() // both consumers are idle, waiting for work
	for i := 0; i < N; i++ {
		vAssert(q.Offer(context.Background(), vc02Req{id: i, size: 1}) == nil, "two-consumers/offer-accepted")
	}
	handedWG.Wait() // every accepted request reaches an idle consumer although the others are busy
	close(release)
	vAssert(q.Shutdown(context.Background()) == nil, "two-consumers/shutdown-ok")
	consumers.Wait()
	for i := 0; i < N; i++ {
		vAssert(handed[i] == 1, "two-consumers/handed-over-exactly-once")
	}
	vAssert(q.Size() == 0, "two-consumers/size-zero-at-the-end")
	vReach("end")
}
