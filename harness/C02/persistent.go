package PKGNAME

// C02 (persistent queue, sequential accounting): size never negative, never above capacity, zero
// once every accepted request has finished — also when a stored request cannot be dispatched
// (undecodable bytes) and is dropped by the queue.

import (
	"context"
	"encoding/binary"
	"errors"

	"go.uber.org/zap"

	"go.opentelemetry.io/collector/component"
	"go.opentelemetry.io/collector/exporter/exporterhelper/internal/request"
	"go.opentelemetry.io/collector/extension/xextension/storage"
)

type vc02PReq struct {
	id      uint64
	corrupt bool // its stored form cannot be decoded
}

type vc02PEnc struct{}

func (vc02PEnc) Marshal(r vc02PReq) ([]byte, error) {
	b := binary.LittleEndian.AppendUint64(nil, r.id)
	if r.corrupt {
		return b[:3], nil
	}
	return b, nil
}

func (vc02PEnc) Unmarshal(b []byte) (vc02PReq, error) {
	if len(b) != 8 {
		return vc02PReq{}, errors.New("corrupt request")
	}
	return vc02PReq{id: binary.LittleEndian.Uint64(b)}, nil
}

type vc02PStore struct{ m map[string][]byte }

func (s *vc02PStore) Get(_ context.Context, k string) ([]byte, error) { return s.m[k], nil }
func (s *vc02PStore) Set(_ context.Context, k string, v []byte) error {
	s.m[k] = append([]byte(nil), v...)
	return nil
}
func (s *vc02PStore) Delete(_ context.Context, k string) error { delete(s.m, k); return nil }
func (s *vc02PStore) Batch(_ context.Context, ops ...*storage.Operation) error {
	for _, op := range ops {
		switch op.Type {
		case storage.Get:
			op.Value = s.m[op.Key]
		case storage.Set:
			s.m[op.Key] = append([]byte(nil), op.Value...)
		case storage.Delete:
			delete(s.m, op.Key)
		}
	}
	return nil
}
func (s *vc02PStore) Close(context.Context) error { return nil }

func VerifC02PersistentAccounting() {
	capacity := vNondetInt64("capacity")
	K := vParam("steps")
	vAssume(capacity >= 1 && capacity <= int64(K))
	q := newPersistentQueue[vc02PReq](persistentQueueSettings[vc02PReq]{sizer: request.RequestsSizer[vc02PReq]{}, capacity: capacity,
		encoding: vc02PEnc{}, telemetry: component.TelemetrySettings{Logger: zap.NewNop()}}).(*persistentQueue[vc02PReq])
	q.initClient(context.Background(), &vc02PStore{m: map[string][]byte{}})
	type item struct {
		id      uint64
		corrupt bool
	}
	var queued []item
	var inflight []Done
	nextID := uint64(1)
	for i := 0; i < K; i++ {
		switch vChoice("op", 3) {
		case 0:
			r := vc02PReq{id: nextID, corrupt: vChoice("corrupt", 2) == 1}
			nextID++
			before := q.Size()
			err := q.Offer(context.Background(), r)
			if err == nil {
				queued = append(queued, item{r.id, r.corrupt})
			} else {
				vAssert(errors.Is(err, ErrQueueIsFull), "persistent/offer-fails-only-when-full")
				vAssert(before+1 > capacity, "persistent/refused-only-when-size-plus-request-exceeds-capacity")
			}
		case 1:
			// read: only when a decodable request is waiting (otherwise Read would block for more input)
			good := -1
			for j, it := range queued {
				if !it.corrupt {
					good = j
					break
				}
			}
			if good < 0 {
				vAssume(false)
			}
			_, r, done, ok := q.Read(context.Background())
			vAssert(ok && r.id == queued[good].id, "persistent/next-decodable-request-is-handed-over-in-order")
			queued = queued[good+1:] // undecodable ones before it were dropped by the queue: they are finished
			inflight = append(inflight, done)
		case 2:
			if len(inflight) == 0 {
				vAssume(false)
			}
			inflight[0].OnDone(nil)
			inflight = inflight[1:]
		}
		sz := q.Size()
		vAssert(sz >= 0, "persistent/size-never-negative")
		vAssert(sz <= capacity, "persistent/size-never-exceeds-capacity")
		if len(queued) == 0 && len(inflight) == 0 {
			vAssert(sz == 0, "persistent/size-zero-when-everything-finished")
			vReach("all-finished")
		}
	}
	// final phase: a consumer waits on the queue; whatever is left and undecodable is dropped by it
	allCorrupt := len(queued) > 0
	for _, it := range queued {
		if !it.corrupt {
			allCorrupt = false
		}
	}
	if allCorrupt {
		go func() {
			_, _, _, _ = q.Read(context.Background()) // drops the undecodable requests, then waits for more
		}()
		vSettle()
		queued = nil
		for _, d := range inflight {
			d.OnDone(nil)
		}
		inflight = nil
		vAssert(q.Size() == 0, "persistent/size-zero-after-undecodable-tail-was-dropped")
		vAssert(q.Offer(context.Background(), vc02PReq{id: nextID}) == nil, "persistent/empty-queue-accepts-a-request")
		vReach("dropped-tail")
		vSettle()
		_ = q.Shutdown(context.Background())
	}
	vReach("end")
}
