package PKGNAME

// C02 / C03 (persistent queue behind its consumer goroutines, as NewQueueBatch assembles it):
// asyncQueue over persistentQueue with a storage client that honours the context of every call, a
// Start context that ends right after Start returned (the service's start-up context), K offers,
// then Shutdown.  Every accepted request is handed to the consumer exactly once, in order, and the
// size is zero at the end — whatever the interleaving of producer and consumer goroutine.

import (
	"context"

	"go.uber.org/zap"

	"go.opentelemetry.io/collector/component"
	"go.opentelemetry.io/collector/exporter/exporterhelper/internal/request"
	"go.opentelemetry.io/collector/extension/xextension/storage"
	"go.opentelemetry.io/collector/pipeline"
)

// vc02CtxStore refuses every call whose context has ended (as file- and network-backed clients do).
type vc02CtxStore struct{ vc01Store }

func (s *vc02CtxStore) Get(ctx context.Context, key string) ([]byte, error) {
	if err := ctx.Err(); err != nil {
		return nil, err
	}
	return s.vc01Store.Get(ctx, key)
}

func (s *vc02CtxStore) Set(ctx context.Context, key string, value []byte) error {
	if err := ctx.Err(); err != nil {
		return err
	}
	return s.vc01Store.Set(ctx, key, value)
}

func (s *vc02CtxStore) Delete(ctx context.Context, key string) error {
	if err := ctx.Err(); err != nil {
		return err
	}
	return s.vc01Store.Delete(ctx, key)
}

func (s *vc02CtxStore) Batch(ctx context.Context, ops ...*storage.Operation) error {
	if err := ctx.Err(); err != nil {
		return err
	}
	return s.vc01Store.Batch(ctx, ops...)
}

type vc02StorageExt struct{ client storage.Client }

func (e *vc02StorageExt) Start(context.Context, component.Host) error { return nil }
func (e *vc02StorageExt) Shutdown(context.Context) error             { return nil }
func (e *vc02StorageExt) GetClient(context.Context, component.Kind, component.ID, string) (storage.Client, error) {
	return e.client, nil
}

type vc02Host struct{ exts map[component.ID]component.Component }

func (h *vc02Host) GetExtensions() map[component.ID]component.Component { return h.exts }

func VerifC02PersistentAsync() {
	K := vParam("requests")
	storageID := component.MustNewID("vstore")
	st := &vc02CtxStore{vc01Store{m: map[string][]byte{}}}
	pq := newPersistentQueue[vc01Req](persistentQueueSettings[vc01Req]{
		sizer: request.RequestsSizer[vc01Req]{}, capacity: int64(K), encoding: vc01Enc{}, storageID: storageID,
		id: component.MustNewID("vexp"), signal: pipeline.SignalLogs, telemetry: component.TelemetrySettings{Logger: zap.NewNop()},
	})
	var got []uint64
	aq := newAsyncQueue[vc01Req](pq, 1, func(_ context.Context, req vc01Req, done Done) {
		got = append(got, req.seq)
		done.OnDone(nil)
	})
	startCtx, cancel := context.WithCancel(context.Background())
	err := aq.Start(startCtx, &vc02Host{exts: map[component.ID]component.Component{storageID: &vc02StorageExt{client: st}}})
	vAssert(err == nil, "persistent-async/started")
	if vChoice("start-context-ends-after-start", 2) == 1 {
		cancel() // the context handed to Start is the start-up context: it ends, the queue keeps running
	}
	accepted := 0
	for i := 0; i < K; i++ {
		if aq.Offer(context.Background(), vc01Req{seq: uint64(i + 1)}) == nil {
			accepted++
		}
	}
	vAssert(accepted == K, "persistent-async/offers-within-capacity-are-accepted")
	if vChoice("consumer-catches-up-before-shutdown", 2) == 1 {
		vSettle()
		vAssert(len(got) == accepted, "persistent-async/consumer-drains-the-queue-while-running")
		vReach("drained-while-running")
	}
	vAssert(aq.Shutdown(context.Background()) == nil, "persistent-async/shutdown-ok")
	cancel()
	// shutdown joins the consumer; what it had not read stays stored (not lost): a second start hands it over
	if len(got) < accepted {
		pq2 := newPersistentQueue[vc01Req](persistentQueueSettings[vc01Req]{
			sizer: request.RequestsSizer[vc01Req]{}, capacity: int64(K), encoding: vc01Enc{}, storageID: storageID,
			id: component.MustNewID("vexp"), signal: pipeline.SignalLogs, telemetry: component.TelemetrySettings{Logger: zap.NewNop()},
		}).(*persistentQueue[vc01Req])
		pq2.initClient(context.Background(), st)
		for pq2.readIndex != pq2.writeIndex {
			_, req, done, ok := pq2.Read(context.Background())
			if !ok {
				break
			}
			got = append(got, req.seq)
			done.OnDone(nil)
		}
		vReach("drained-by-next-start")
	}
	vAssert(len(got) == accepted, "persistent-async/every-accepted-request-handed-over-exactly-once")
	for i := range got {
		vAssert(got[i] == uint64(i+1), "persistent-async/hand-over-in-arrival-order")
	}
	vReach("end")
}
