package PKGNAME

// C03 / C19, end to end: the exporter exactly as NewBaseExporter assembles it — queue front with its
// consumer goroutine, obs sender, retry sender, timeout sender, export function — started, given K
// requests by a producer, and shut down through BaseExporter.Shutdown (its own ordering code) at
// whatever point the schedule allows.  Configuration chosen: queue enabled / disabled, retry
// enabled / disabled, batching on / off; the backend succeeds or fails per call.
// When Shutdown returns: no export call running, none begins later, no goroutine left; every request
// whose Send returned nil was attempted at least once (exactly once when nothing failed and retry is
// off); sent + failed-to-send + failed-to-enqueue == items given.

import (
	"context"
	"errors"
	"time"

	"github.com/cenkalti/backoff/v5"
	tracenoop "go.opentelemetry.io/otel/trace/noop"
	"go.uber.org/zap"

	"go.opentelemetry.io/collector/component"
	"go.opentelemetry.io/collector/config/configretry"
	"go.opentelemetry.io/collector/exporter"
	"go.opentelemetry.io/collector/exporter/exporterhelper/internal/queuebatch"
	"go.opentelemetry.io/collector/exporter/exporterhelper/internal/request"
	"go.opentelemetry.io/collector/pipeline"
)

type vbeReq struct {
	ids []int // identities of the items it carries
}

func (r *vbeReq) ItemsCount() int { return len(r.ids) }
func (r *vbeReq) MergeSplit(_ context.Context, max int, _ request.SizerType, other request.Request) ([]request.Request, error) {
	all := append([]int(nil), r.ids...)
	if other != nil {
		all = append(all, other.(*vbeReq).ids...)
	}
	if max <= 0 || len(all) <= max {
		return []request.Request{&vbeReq{ids: all}}, nil
	}
	var out []request.Request
	for len(all) > 0 {
		n := max
		if n > len(all) {
			n = len(all)
		}
		out = append(out, &vbeReq{ids: all[:n:n]})
		all = all[n:]
	}
	return out, nil
}

func vbeNextBackOff(*backoff.ExponentialBackOff) time.Duration { return 0 }

func VerifC03BaseExporter() {
	K := vParam("requests")
	led := vNewLedger()
	set := exporter.Settings{ID: component.MustNewID("vexp"),
		TelemetrySettings: component.TelemetrySettings{Logger: zap.NewNop(), MeterProvider: vLedgerProvider{led: led}, TracerProvider: tracenoop.NewTracerProvider()}}
	running, calls, late := 0, 0, 0
	stopped := false
	attempts := map[int]int{}
	failNext := 0
	pusher := func(_ context.Context, rq request.Request) error {
		running++
		calls++
		if stopped {
			late++
		}
		vYield() // the backend is slow: anything may happen meanwhile
		for _, id := range rq.(*vbeReq).ids {
			attempts[id]++
		}
		running--
		if failNext > 0 {
			failNext--
			return errors.New("backend failed")
		}
		return nil
	}
	var opts []Option
	// configuration: bit 0 queue, bit 1 retry, bit 2 batching (needs the queue)
	cfgBits := vParam("config")
	if cfgBits < 0 {
		cfgBits = vChoice("queue-retry-configuration", 4) // the four configurations without batching
	}
	withQueue := cfgBits&1 != 0
	withRetry := cfgBits&2 != 0
	withBatch := withQueue && cfgBits&4 != 0
	if withQueue {
		cfg := queuebatch.Config{Enabled: true, Sizer: request.SizerTypeItems, QueueSize: 8, NumConsumers: 1}
		if withBatch {
			cfg.Batch = &queuebatch.BatchConfig{FlushTimeout: time.Second, MinSize: 2, MaxSize: 3}
		}
		opts = append(opts, WithQueueBatch(cfg, QueueBatchSettings[request.Request]{Sizers: map[request.SizerType]request.Sizer[request.Request]{request.SizerTypeItems: request.NewItemsSizer()}}))
	}
	if withRetry {
		opts = append(opts, WithRetry(configretry.BackOffConfig{Enabled: true, InitialInterval: time.Second, MaxInterval: time.Minute, Multiplier: 1.5, RandomizationFactor: 0.5}))
	}
	if withBatch {
		opts = append(opts, WithTimeout(TimeoutConfig{Timeout: 0}))
	} else {
		opts = append(opts, WithTimeout(TimeoutConfig{Timeout: time.Second})) // the timeout sender is part of the chain
	}
	be, err := NewBaseExporter(set, pipeline.SignalLogs, pusher, opts...)
	vAssert(err == nil, "base-exporter/created")
	vAssert(be.Start(context.Background(), nil) == nil, "base-exporter/started")
	failNext = vChoice("backend-failures", 2)
	var given int64
	accepted := map[int]bool{}
	nextID := 0
	for i := 0; i < K; i++ {
		n := 2 - i%2 // 2, 1, 2, ... items: with batching (min 2, max 3) merges, parks and splits all occur
		r := &vbeReq{}
		for j := 0; j < n; j++ {
			r.ids = append(r.ids, nextID)
			nextID++
		}
		given += int64(n)
		if be.Send(context.Background(), r) == nil {
			for _, id := range r.ids {
				accepted[id] = true
			}
		}
	}
	failures := failNext
	vAssert(be.Shutdown(context.Background()) == nil, "base-exporter/shutdown-ok")
	stopped = true
	vAssert(running == 0, "base-exporter/all-export-calls-returned-when-shutdown-returns")
	vSettle()
	vAssert(late == 0 && running == 0, "base-exporter/no-export-call-begins-after-shutdown-returned")
	vAssert(vLiveGoroutines() == 0, "base-exporter/no-helper-goroutine-left-running")
	for id := range accepted {
		vAssert(attempts[id] >= 1, "base-exporter/every-accepted-item-attempted-by-shutdown")
	}
	_ = failures
	sent, failed, refused := led.sum["otelcol_exporter_sent_log_records"], led.sum["otelcol_exporter_send_failed_log_records"], led.sum["otelcol_exporter_enqueue_failed_log_records"]
	vAssert(sent+failed+refused == given, "base-exporter/sent-plus-send-failed-plus-enqueue-failed-equals-items-given")
	vReach("end")
}
