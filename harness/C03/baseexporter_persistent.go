package PKGNAME

// C03, persistent-queue clause end to end: the exporter as NewBaseExporter assembles it with a
// persistent queue (storage extension found through the host, real persistentQueue behind its
// consumer goroutine), retry on / off, a backend that fails retryably any number of times, and
// BaseExporter.Shutdown at whatever point the schedule allows (in particular while a request waits
// in its retry back-off).  After Shutdown returned, every request whose Send succeeded has either
// finished export (success, or a final failure when retry is off) or is still durably stored: a
// second exporter started on the same storage with a healthy backend delivers it.

import (
	"context"
	"encoding/binary"
	"errors"
	"time"

	tracenoop "go.opentelemetry.io/otel/trace/noop"
	"go.uber.org/zap"

	"go.opentelemetry.io/collector/component"
	"go.opentelemetry.io/collector/config/configretry"
	"go.opentelemetry.io/collector/exporter"
	"go.opentelemetry.io/collector/exporter/exporterhelper/internal/queuebatch"
	"go.opentelemetry.io/collector/exporter/exporterhelper/internal/request"
	"go.opentelemetry.io/collector/extension/xextension/storage"
	"go.opentelemetry.io/collector/pipeline"
)

type vbpEnc struct{}

func (vbpEnc) Marshal(r request.Request) ([]byte, error) {
	var b []byte
	for _, id := range r.(*vbeReq).ids {
		b = binary.LittleEndian.AppendUint32(b, uint32(id))
	}
	return b, nil
}

func (vbpEnc) Unmarshal(b []byte) (request.Request, error) {
	if len(b)%4 != 0 {
		return nil, errors.New("corrupt request")
	}
	r := &vbeReq{}
	for i := 0; i+4 <= len(b); i += 4 {
		r.ids = append(r.ids, int(binary.LittleEndian.Uint32(b[i:])))
	}
	return r, nil
}

// vbpMedium survives the exporter; clients over it are handed out by the storage extension.
type vbpMedium struct {
	m      map[string][]byte
	closed int
}

type vbpClient struct{ med *vbpMedium }

func (c vbpClient) Get(_ context.Context, key string) ([]byte, error) { return c.med.m[key], nil }
func (c vbpClient) Set(_ context.Context, key string, value []byte) error {
	c.med.m[key] = append([]byte{}, value...)
	return nil
}
func (c vbpClient) Delete(_ context.Context, key string) error { delete(c.med.m, key); return nil }
func (c vbpClient) Batch(_ context.Context, ops ...*storage.Operation) error {
	for _, op := range ops {
		switch op.Type {
		case storage.Get:
			op.Value = c.med.m[op.Key]
		case storage.Set:
			c.med.m[op.Key] = append([]byte{}, op.Value...)
		case storage.Delete:
			delete(c.med.m, op.Key)
		}
	}
	return nil
}
func (c vbpClient) Close(context.Context) error { c.med.closed++; return nil }

type vbpExt struct{ med *vbpMedium }

func (vbpExt) Start(context.Context, component.Host) error { return nil }
func (vbpExt) Shutdown(context.Context) error              { return nil }
func (e vbpExt) GetClient(context.Context, component.Kind, component.ID, string) (storage.Client, error) {
	return vbpClient{e.med}, nil
}

type vbpHost struct{ exts map[component.ID]component.Component }

func (h vbpHost) GetExtensions() map[component.ID]component.Component { return h.exts }

func VerifC03BaseExporterPersistent() {
	K := vParam("requests")
	med := &vbpMedium{m: map[string][]byte{}}
	storageID := component.MustNewID("vstorage")
	host := vbpHost{exts: map[component.ID]component.Component{storageID: vbpExt{med}}}
	withRetry := vChoice("retry", 2) == 1

	delivered := map[int]int{} // successful exports per item
	finalFail := map[int]int{} // exports that failed while no retry is configured (a final outcome)
	running, late := 0, 0
	stopped := false
	healthy := false
	failures := 1 // the first n calls of the first exporter fail retryably; with retry the request reaches the back-off wait
	if !withRetry || vParam("moreFailures") == 1 {
		failures = vChoice("backend-failures", 2)
		if withRetry {
			failures++
		}
	}
	mk := func() *BaseExporter {
		led := vNewLedger()
		set := exporter.Settings{ID: component.MustNewID("vexp"),
			TelemetrySettings: component.TelemetrySettings{Logger: zap.NewNop(), MeterProvider: vLedgerProvider{led: led}, TracerProvider: tracenoop.NewTracerProvider()}}
		pusher := func(_ context.Context, rq request.Request) error {
			running++
			if stopped {
				late++
			}
			if !healthy {
				vYield() // the backend is slow: anything may happen meanwhile
			}
			running--
			if !healthy && failures > 0 {
				failures--
				if !withRetry {
					for _, id := range rq.(*vbeReq).ids {
						finalFail[id]++
					}
				}
				return errors.New("backend unavailable")
			}
			for _, id := range rq.(*vbeReq).ids {
				delivered[id]++
			}
			return nil
		}
		cfg := queuebatch.Config{Enabled: true, Sizer: request.SizerTypeRequests, QueueSize: 8, NumConsumers: 1, StorageID: &storageID}
		opts := []Option{
			WithQueueBatch(cfg, QueueBatchSettings[request.Request]{Encoding: vbpEnc{}, Sizers: map[request.SizerType]request.Sizer[request.Request]{request.SizerTypeRequests: request.RequestsSizer[request.Request]{}}}),
			WithTimeout(TimeoutConfig{Timeout: time.Second}),
		}
		if withRetry {
			opts = append(opts, WithRetry(configretry.BackOffConfig{Enabled: true, InitialInterval: time.Second, MaxInterval: time.Minute, Multiplier: 1.5, RandomizationFactor: 0.5}))
		}
		be, err := NewBaseExporter(set, pipeline.SignalLogs, pusher, opts...)
		vAssert(err == nil, "base-exporter-persistent/created")
		vAssert(be.Start(context.Background(), host) == nil, "base-exporter-persistent/started")
		return be
	}

	be := mk()
	accepted := map[int]bool{}
	var order []int
	nextID := 0
	for i := 0; i < K; i++ {
		r := &vbeReq{ids: []int{nextID, nextID + 1}}
		nextID += 2
		if be.Send(context.Background(), r) == nil {
			for _, id := range r.ids {
				accepted[id] = true
				order = append(order, id)
			}
		}
	}
	if vChoice("consumer-runs-before-shutdown", 2) == 1 {
		vSettle() // the consumer works until it blocks (queue empty, or a request waiting in its retry back-off)
	}
	vAssert(be.Shutdown(context.Background()) == nil, "base-exporter-persistent/shutdown-ok")
	stopped = true
	vAssert(running == 0, "base-exporter-persistent/all-export-calls-returned-when-shutdown-returns")
	vSettle()
	vAssert(late == 0 && running == 0, "base-exporter-persistent/no-export-call-begins-after-shutdown-returned")
	vAssert(vLiveGoroutines() == 0, "base-exporter-persistent/no-helper-goroutine-left-running")
	vAssert(med.closed == 1, "base-exporter-persistent/storage-client-closed-once")
	pending := 0
	for _, id := range order {
		if delivered[id] == 0 && finalFail[id] == 0 {
			pending++
		}
	}
	if pending > 0 {
		vReach("unfinished-at-shutdown")
	}
	if pending < len(order) {
		vReach("some-finished-before-shutdown")
	}

	// the next start on the same storage, healthy backend
	stopped, healthy = false, true
	be2 := mk()
	vSettle() // its consumer drains what the storage holds
	vAssert(be2.Shutdown(context.Background()) == nil, "base-exporter-persistent/second-shutdown-ok")
	for _, id := range order {
		vAssert(delivered[id] >= 1 || finalFail[id] >= 1, "base-exporter-persistent/request-enqueued-before-shutdown-finished-or-still-stored")
	}
	vReach("end")
}
