package PKGNAME

// defaultBatcher under the scheduler: K requests consumed, arbitrary valid batch configuration
// (min/max symbolic), flush outcomes chosen per export, the flush timer firing at any point, and
// Shutdown.  Serves C04 (conservation through batching, completion callbacks), C03 (shutdown drains
// the partial batch, no export after shutdown returned, no goroutine left) and C19's exporter ledger.

import (
	"context"
	"errors"
	"time"

	"go.opentelemetry.io/collector/exporter/exporterhelper/internal/experr"
	"go.opentelemetry.io/collector/exporter/exporterhelper/internal/request"
)

type vbPart struct {
	origin int
	n      int
}

// vbReq is an arithmetic request: a bag of (origin request, item count) parts.
type vbReq struct {
	parts []vbPart
}

func (r *vbReq) ItemsCount() int {
	s := 0
	for _, p := range r.parts {
		s += p.n
	}
	return s
}

func (r *vbReq) MergeSplit(_ context.Context, maxSize int, _ request.SizerType, other request.Request) ([]request.Request, error) {
	all := append([]vbPart(nil), r.parts...)
	if other != nil {
		all = append(all, other.(*vbReq).parts...)
	}
	if maxSize == 0 {
		return []request.Request{&vbReq{parts: all}}, nil
	}
	var out []request.Request
	cur := &vbReq{}
	curN := 0
	// The MergeSplit contract only bounds every part by maxSize (and the last part by the others):
	// a byte-sized splitter leaves parts slightly under-filled. fill is the level at which a part is closed.
	fill := maxSize
	if vbUnderfill && maxSize >= 2 && vChoice("underfill", 2) == 1 {
		fill = maxSize - 1
	}
	for _, p := range all {
		n := p.n
		for n > 0 {
			take := fill - curN
			if n < take {
				take = n
			}
			cur.parts = append(cur.parts, vbPart{origin: p.origin, n: take})
			curN += take
			n -= take
			if curN == fill {
				out = append(out, cur)
				cur = &vbReq{}
				curN = 0
			}
		}
	}
	if curN > 0 || len(out) == 0 {
		out = append(out, cur)
	}
	return out, nil
}

var vbUnderfill bool

type vbDone struct {
	led    *vbLedger
	origin int
}

func (d *vbDone) OnDone(err error) {
	d.led.doneCalls[d.origin]++
	d.led.doneErr[d.origin] = err
	// completion must come after every batch holding part of this request has finished
	vAssert(d.led.inFlightWith(d.origin) == 0, "done-fires-after-every-batch-with-its-data-finished")
	vAssert(d.led.exported[d.origin]+d.led.failed[d.origin] == d.led.offered[d.origin], "done-fires-only-when-all-its-items-were-attempted")
}

type vbLedger struct {
	offered   map[int]int
	exported  map[int]int // items of origin in successfully exported batches
	failed    map[int]int // items of origin in failed batches
	shutdownInterrupted map[int]bool // a batch with items of origin ended with a shutdown error
	doneCalls map[int]int
	doneErr   map[int]error
	inFlight  []*vbReq
	exports   int
	stopped   bool
	maxSeen   int
	zeroOffered bool // some offered request carries no items
}

func (l *vbLedger) inFlightWith(origin int) int {
	n := 0
	for _, r := range l.inFlight {
		for _, p := range r.parts {
			if p.origin == origin {
				n++
			}
		}
	}
	return n
}

var vbErrExport = errors.New("export failed")

func VerifC03Batcher() {
	K := vParam("K")
	simple := vParam("simple")      // 1: fixed item counts (3, 1, 3, ...)
	nOutcomes := vParam("outcomes") // 1: exports succeed; 2: or fail; 3: or are interrupted by shutdown
	led := &vbLedger{offered: map[int]int{}, exported: map[int]int{}, failed: map[int]int{}, doneCalls: map[int]int{}, doneErr: map[int]error{}, shutdownInterrupted: map[int]bool{}}
	vbUnderfill = vParam("underfill") == 1
	cfg := BatchConfig{FlushTimeout: time.Second, MinSize: vNondetInt64("min_size"), MaxSize: vNondetInt64("max_size")}
	vAssume(cfg.Validate() == nil)
	vAssume(cfg.MinSize <= 6 && cfg.MaxSize <= 6)
	if vParam("timer") == 0 {
		cfg.FlushTimeout = 0 // no time-based flushing goroutine (size- and shutdown-triggered flushes only)
	}
	next := func(_ context.Context, rq request.Request) error {
		r := rq.(*vbReq)
		vAssert(!led.stopped, "no-export-begins-after-shutdown-returned")
		n := r.ItemsCount()
		vAssert(n > 0 || led.zeroOffered, "no-empty-batch-exported") // a request without items, exported on its own, is the one batch that may be empty
		if cfg.MaxSize > 0 {
			vAssert(int64(n) <= cfg.MaxSize, "exported-batch-within-max-size")
		}
		led.exports++
		led.inFlight = append(led.inFlight, r)
		vYield() // the backend is slow: anything may happen while the export is in progress
		outcome := 0
		if nOutcomes > 1 {
			outcome = vChoice("export-outcome", nOutcomes) // ok, failure, interrupted by shutdown
		}
		fail := outcome != 0
		for i, x := range led.inFlight {
			if x == r {
				led.inFlight = append(led.inFlight[:i:i], led.inFlight[i+1:]...)
				break
			}
		}
		for _, p := range r.parts {
			if fail {
				led.failed[p.origin] += p.n
				if outcome == 2 {
					led.shutdownInterrupted[p.origin] = true
				}
			} else {
				led.exported[p.origin] += p.n
			}
		}
		if outcome == 2 {
			return experr.NewShutdownErr(vbErrExport)
		}
		if fail {
			return vbErrExport
		}
		return nil
	}
	qb := newDefaultBatcher(cfg, batcherSettings[request.Request]{
		sizerType:  request.SizerTypeItems,
		sizer:      request.NewItemsSizer(),
		next:       next,
		maxWorkers: vParam("workers"),
	})
	vAssert(qb.Start(context.Background(), nil) == nil, "start-ok")
	for i := 0; i < K; i++ {
		n := 3 - 2*(i%2) // simple mode: 3, 1, 3, ...
		if simple == 0 {
			n = 1 + vChoice("items", 3)
		}
		if vParam("zero") == 1 && vChoice("request-without-items", 2) == 1 {
			n = 0 // a payload with empty containers: its completion callback still fires exactly once
			led.zeroOffered = true
		}
		led.offered[i] = n
		qb.Consume(context.Background(), &vbReq{parts: []vbPart{{origin: i, n: n}}}, &vbDone{led: led, origin: i})
	}
	vAssert(qb.Shutdown(context.Background()) == nil, "shutdown-ok")
	led.stopped = true
	// C03: everything accepted before shutdown was attempted, all export calls have returned, nothing is left running
	vAssert(len(led.inFlight) == 0, "no-export-in-progress-when-shutdown-returns")
	for i := 0; i < K; i++ {
		vAssert(led.exported[i]+led.failed[i] == led.offered[i], "every-item-attempted-exactly-once-by-shutdown")
		vAssert(led.doneCalls[i] == 1, "each-completion-callback-fires-exactly-once")
		vAssert((led.doneErr[i] != nil) == (led.failed[i] > 0), "completion-error-iff-one-of-its-batches-failed")
		if led.shutdownInterrupted[i] {
			// the queue keeps a request whose hand-off was interrupted by shutdown: the interruption must stay visible
			vAssert(experr.IsShutdownErr(led.doneErr[i]), "completion-error-keeps-shutdown-interruption")
		}
	}
	vSettle()
	vAssert(vLiveGoroutines() == 0, "no-helper-goroutine-left-running")
	if led.exports > K {
		vReach("split")
	}
	if led.exports < K {
		vReach("merged")
	}
	vReach("end")
}

// VerifC03QueueBatch: the queue stage and the batcher stage composed as QueueBatch composes them
// (asyncQueue over the in-memory queue feeding the batcher, or the disabled batcher), then Shutdown.
func VerifC03QueueBatch() {
	K := vParam("K")
	led := &vbLedger{offered: map[int]int{}, exported: map[int]int{}, failed: map[int]int{}, doneCalls: map[int]int{}, doneErr: map[int]error{}, shutdownInterrupted: map[int]bool{}}
	vbUnderfill = false
	nOutcomes := vParam("outcomes")
	next := func(_ context.Context, rq request.Request) error {
		r := rq.(*vbReq)
		vAssert(!led.stopped, "queue-batch/no-export-begins-after-shutdown-returned")
		led.exports++
		led.inFlight = append(led.inFlight, r)
		vYield()
		fail := nOutcomes > 1 && vChoice("export-fails", 2) == 1
		for i, x := range led.inFlight {
			if x == r {
				led.inFlight = append(led.inFlight[:i:i], led.inFlight[i+1:]...)
				break
			}
		}
		for _, p := range r.parts {
			if fail {
				led.failed[p.origin] += p.n
			} else {
				led.exported[p.origin] += p.n
			}
		}
		if fail {
			return vbErrExport
		}
		return nil
	}
	var b Batcher[request.Request]
	consumers := 1 + vChoice("consumers", vParam("maxConsumers"))
	if vParam("batching") == 1 {
		cfg := BatchConfig{FlushTimeout: 0, MinSize: vNondetInt64("min_size"), MaxSize: vNondetInt64("max_size")}
		vAssume(cfg.MinSize >= 0 && cfg.MaxSize >= 0 && (cfg.MaxSize == 0 || cfg.MaxSize >= cfg.MinSize))
		vAssume(cfg.MinSize <= 4 && cfg.MaxSize <= 4)
		consumers = 1
		b = newDefaultBatcher(cfg, batcherSettings[request.Request]{sizerType: request.SizerTypeItems, sizer: request.NewItemsSizer(), next: next, maxWorkers: 1})
	} else {
		b = newDisabledBatcher[request.Request](next)
	}
	capacity := int64(K) * 3
	q := newAsyncQueue(newMemoryQueue[request.Request](memoryQueueSettings[request.Request]{sizer: request.NewItemsSizer(), capacity: capacity}), consumers, b.Consume)
	qb := &QueueBatch{queue: q, batcher: b}
	vAssert(qb.Start(context.Background(), nil) == nil, "queue-batch/start-ok")
	accepted := map[int]bool{}
	for i := 0; i < K; i++ {
		n := 1 + i%2
		led.offered[i] = n
		if qb.Send(context.Background(), &vbReq{parts: []vbPart{{origin: i, n: n}}}) == nil {
			accepted[i] = true // enqueue completed before shutdown is requested
		}
	}
	// the context handed to Shutdown may already have ended (a shutdown deadline): the drain still completes
	sctx := context.Background()
	if vChoice("shutdown-context-already-ended", 2) == 1 {
		c, cancel := context.WithCancel(sctx)
		cancel()
		sctx = c
	}
	vAssert(qb.Shutdown(sctx) == nil, "queue-batch/shutdown-ok")
	led.stopped = true
	vAssert(len(led.inFlight) == 0, "queue-batch/all-export-calls-returned-when-shutdown-returns")
	for i := 0; i < K; i++ {
		if accepted[i] {
			vAssert(led.exported[i]+led.failed[i] == led.offered[i], "queue-batch/every-accepted-request-attempted-exactly-once-by-shutdown")
		} else {
			vAssert(led.exported[i]+led.failed[i] == 0, "queue-batch/refused-request-never-exported")
		}
	}
	vSettle()
	vAssert(vLiveGoroutines() == 0, "queue-batch/no-helper-goroutine-left-running")
	vReach("end")
}
