package PKGNAME

// C03 (configurations): the deprecated WithBatcher option must not change what the user configured
// for the queue — in particular a configured storage (persistent queue) stays configured, otherwise
// "still durably stored for the next start" silently stops holding.  All scalar settings symbolic.

import (
	"time"

	"go.opentelemetry.io/collector/component"
	"go.opentelemetry.io/collector/exporter/exporterhelper/internal/queuebatch"
	"go.opentelemetry.io/collector/exporter/exporterhelper/internal/request"
)

func VerifC03LegacyBatcherConfig() {
	id := component.MustNewID("vstore")
	q := queuebatch.Config{
		Enabled:         vNondetBool("queue_enabled"),
		WaitForResult:   vNondetBool("wait_for_result"),
		BlockOnOverflow: vNondetBool("block_on_overflow"),
		Sizer:           []request.SizerType{request.SizerTypeRequests, request.SizerTypeItems, request.SizerTypeBytes}[vChoice("sizer", 3)],
		QueueSize:       int64(vNondetInt("queue_size")),
		NumConsumers:    vNondetInt("num_consumers"),
	}
	if vChoice("storage-configured", 2) == 1 {
		q.StorageID = &id
	}
	b := BatcherConfig{Enabled: vNondetBool("batcher_enabled"), FlushTimeout: time.Duration(vNondetInt64("flush_timeout"))}
	b.MinSize, b.MaxSize = vNondetInt64("min_size"), vNondetInt64("max_size")
	out := newQueueBatchConfig(q, b)
	if !b.Enabled {
		vAssert(out.Enabled == q.Enabled && out.StorageID == q.StorageID && out.QueueSize == q.QueueSize && out.NumConsumers == q.NumConsumers &&
			out.WaitForResult == q.WaitForResult && out.BlockOnOverflow == q.BlockOnOverflow && out.Sizer == q.Sizer && out.Batch == q.Batch,
			"legacy-config/without-the-legacy-batcher-the-queue-configuration-is-untouched")
		vReach("no-legacy-batcher")
		return
	}
	vAssert(out.Batch != nil && out.Batch.FlushTimeout == b.FlushTimeout && out.Batch.MinSize == b.MinSize && out.Batch.MaxSize == b.MaxSize, "legacy-config/batch-settings-taken-from-the-legacy-option")
	if q.Enabled {
		vAssert(out.StorageID == q.StorageID, "legacy-config/configured-storage-stays-configured")
		vAssert(out.Enabled && out.QueueSize == q.QueueSize && out.NumConsumers == q.NumConsumers && out.WaitForResult == q.WaitForResult &&
			out.BlockOnOverflow == q.BlockOnOverflow && out.Sizer == q.Sizer, "legacy-config/queue-settings-stay-as-configured")
		vReach("queue-and-legacy-batcher")
	} else {
		// batching without a queue: a synchronous pass-through queue in front of the batcher
		vAssert(out.Enabled && out.WaitForResult && out.BlockOnOverflow && out.StorageID == nil, "legacy-config/batching-without-queue-is-synchronous-and-in-memory")
		vReach("legacy-batcher-only")
	}
	vReach("end")
}
