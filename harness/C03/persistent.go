package PKGNAME

// C03, persistent-queue clause: when Shutdown is requested at ANY point of a script of reads and
// completions, every request whose enqueue completed before has either finished export (success or
// final failure) or is still durably stored for the next start; nothing is read after the stop; the
// storage client stays open until the last in-flight hand-off completed and is not touched afterwards.
// (The store, request type and ledger are those of the C01 harness; no crash is injected here.)

import (
	"context"
	"errors"

	"go.uber.org/multierr"

	"go.opentelemetry.io/collector/exporter/exporterhelper/internal/experr"
	"go.opentelemetry.io/collector/extension/xextension/storage"
)

// vc03Store adds Close tracking to the C01 medium.
type vc03Store struct {
	vc01Store
	closed     bool
	closes     int
	afterClose int
}

func (s *vc03Store) touch() {
	if s.closed {
		s.afterClose++
	}
}

func (s *vc03Store) Get(ctx context.Context, key string) ([]byte, error) {
	s.touch()
	return s.vc01Store.Get(ctx, key)
}

func (s *vc03Store) Set(ctx context.Context, key string, value []byte) error {
	s.touch()
	return s.vc01Store.Set(ctx, key, value)
}

func (s *vc03Store) Delete(ctx context.Context, key string) error {
	s.touch()
	return s.vc01Store.Delete(ctx, key)
}

func (s *vc03Store) Batch(ctx context.Context, ops ...*storage.Operation) error {
	s.touch()
	return s.vc01Store.Batch(ctx, ops...)
}

func (s *vc03Store) Close(context.Context) error {
	s.closed = true
	s.closes++
	return nil
}

func vc03Complete(led *vc01Ledger, o vc01Out, afterStop bool) {
	tag := "before-stop"
	if afterStop {
		tag = "after-stop"
	}
	switch vChoice("outcome/"+tag, 4) {
	case 0:
		o.done.OnDone(nil)
		led.final[o.seq]++
	case 1:
		o.done.OnDone(errors.New("permanent failure"))
		led.final[o.seq]++
	case 2:
		o.done.OnDone(experr.NewShutdownErr(errors.New("stopping")))
	case 3:
		// split request: one piece interrupted by shutdown, another piece failed -> still an interruption
		o.done.OnDone(multierr.Append(experr.NewShutdownErr(errors.New("stopping")), errors.New("other piece failed")))
	}
}

func VerifC03PersistentShutdown() {
	L := vParam("L")
	pre := vParam("pre")
	capacity := vNondetInt64("capacity")
	vAssume(capacity >= 1 && capacity <= int64(pre)+1)
	st := &vc03Store{vc01Store: vc01Store{m: map[string][]byte{}}}
	led := &vc01Ledger{accepted: map[uint64]uint64{}, handed: map[uint64]int{}, final: map[uint64]int{}}
	vc01Led = led
	q := vc01NewQueue(capacity)
	q.initClient(context.Background(), st)
	nextSeq := uint64(1)
	for i := 0; i < pre; i++ {
		r := vc01Req{seq: nextSeq, payload: vNondetUint64("payload")}
		nextSeq++
		if q.Offer(context.Background(), r) == nil {
			led.accepted[r.seq] = r.payload
			led.order = append(led.order, r.seq)
		}
	}
	var outs []vc01Out
	pick := func() vc01Out {
		i := vChoice("which", len(outs))
		o := outs[i]
		outs = append(outs[:i:i], outs[i+1:]...)
		return o
	}
	for step := 0; step < L; step++ {
		op := vChoice("op", 4)
		if op == 3 {
			break // shutdown is requested now
		}
		switch op {
		case 0: // a late offer, still before the shutdown request
			r := vc01Req{seq: nextSeq, payload: vNondetUint64("payload")}
			nextSeq++
			if q.Offer(context.Background(), r) == nil {
				led.accepted[r.seq] = r.payload
				led.order = append(led.order, r.seq)
			}
		case 1:
			if q.readIndex == q.writeIndex {
				vAssume(false)
			}
			led.read(q, &st.vc01Store, &outs)
		case 2:
			if len(outs) == 0 {
				vAssume(false)
			}
			vc03Complete(led, pick(), false)
		}
	}
	inflight := len(outs)
	err := q.Shutdown(context.Background())
	vAssert(err == nil, "shutdown-returns-no-error")
	if inflight > 0 {
		vAssert(!st.closed, "storage-client-stays-open-while-hand-offs-are-in-flight")
	} else {
		vAssert(st.closed, "storage-client-closed-by-shutdown-when-nothing-in-flight")
	}
	// nothing is handed out after the stop
	_, _, _, ok := q.Read(context.Background())
	vAssert(!ok, "no-read-succeeds-after-shutdown")
	// the in-flight hand-offs complete after the stop, in any order, with any outcome
	for len(outs) > 0 {
		vAssert(!st.closed, "storage-client-stays-open-until-the-last-hand-off-completes")
		vc03Complete(led, pick(), true)
	}
	vAssert(st.closed, "storage-client-closed-after-the-last-hand-off")
	vAssert(st.closes == 1, "storage-client-closed-exactly-once")
	vAssert(st.afterClose == 0, "storage-not-touched-after-close")
	vReach("stopped")

	// the next start: everything not finished is handed over again
	st2 := &vc03Store{vc01Store: vc01Store{m: st.m}}
	q2 := vc01NewQueue(capacity + int64(pre) + int64(L)) // room for the write-back of every unfinished hand-off
	q2.initClient(context.Background(), st2)
	var outs2 []vc01Out
	for q2.readIndex != q2.writeIndex {
		n := len(outs2)
		led.read(q2, &st2.vc01Store, &outs2)
		if len(outs2) == n {
			break
		}
		o := outs2[len(outs2)-1]
		o.done.OnDone(nil)
		led.final[o.seq]++
	}
	for _, seq := range led.order {
		vAssert(led.final[seq] >= 1, "request-enqueued-before-shutdown-finished-or-still-stored/"+led.scenario(seq))
	}
	vReach("drained")
}
