package PKGNAME

// C03: QueueBatch as composed over a *persistent* queue with the batcher (the deprecated batcher over
// a requests-sized persistent queue is the valid configuration that has both), a storage client whose
// Close may fail exactly at shutdown.  Whatever the queue's shutdown reports, the batcher is shut
// down too: the partial batch is flushed, its flush-timer goroutine ends, nothing is exported later,
// whether or not the queue's shutdown reported a failure.

import (
	"context"
	"encoding/binary"
	"errors"
	"time"

	"go.uber.org/zap"

	"go.opentelemetry.io/collector/component"
	"go.opentelemetry.io/collector/exporter/exporterhelper/internal/request"
	"go.opentelemetry.io/collector/extension/xextension/storage"
	"go.opentelemetry.io/collector/pipeline"
)

type vqpEnc struct{}

func (vqpEnc) Marshal(r request.Request) ([]byte, error) {
	var b []byte
	for _, p := range r.(*vbReq).parts {
		b = binary.LittleEndian.AppendUint32(b, uint32(p.origin))
		b = binary.LittleEndian.AppendUint32(b, uint32(p.n))
	}
	return b, nil
}

func (vqpEnc) Unmarshal(b []byte) (request.Request, error) {
	r := &vbReq{}
	for i := 0; i+8 <= len(b); i += 8 {
		r.parts = append(r.parts, vbPart{origin: int(binary.LittleEndian.Uint32(b[i:])), n: int(binary.LittleEndian.Uint32(b[i+4:]))})
	}
	return r, nil
}

type vqpMedium struct {
	m         map[string][]byte
	closeFail bool
	closed    int
}

var errVqpClose = errors.New("storage close failed")

type vqpClient struct{ med *vqpMedium }

func (c vqpClient) Get(_ context.Context, key string) ([]byte, error) { return c.med.m[key], nil }
func (c vqpClient) Set(_ context.Context, key string, value []byte) error {
	c.med.m[key] = append([]byte{}, value...)
	return nil
}
func (c vqpClient) Delete(_ context.Context, key string) error { delete(c.med.m, key); return nil }
func (c vqpClient) Batch(_ context.Context, ops ...*storage.Operation) error {
	for _, op := range ops {
		switch op.Type {
		case storage.Get:
			op.Value = c.med.m[op.Key]
		case storage.Set:
			c.med.m[op.Key] = append([]byte{}, op.Value...)
		case storage.Delete:
			delete(c.med.m, op.Key)
		}
	}
	return nil
}
func (c vqpClient) Close(context.Context) error {
	c.med.closed++
	if c.med.closeFail {
		return errVqpClose
	}
	return nil
}

type vqpExt struct{ med *vqpMedium }

func (vqpExt) Start(context.Context, component.Host) error { return nil }
func (vqpExt) Shutdown(context.Context) error              { return nil }
func (e vqpExt) GetClient(context.Context, component.Kind, component.ID, string) (storage.Client, error) {
	return vqpClient{e.med}, nil
}

type vqpHost struct{ exts map[component.ID]component.Component }

func (h vqpHost) GetExtensions() map[component.ID]component.Component { return h.exts }

func VerifC03QueueBatchPersistent() {
	K := vParam("K")
	med := &vqpMedium{m: map[string][]byte{}, closeFail: vNondetBool("storage-close-fails")}
	storageID := component.MustNewID("vstorage")
	host := vqpHost{exts: map[component.ID]component.Component{storageID: vqpExt{med}}}
	exported := map[int]int{}
	offered := map[int]int{}
	stopped := false
	inFlight := 0
	next := func(_ context.Context, rq request.Request) error {
		vAssert(!stopped, "queue-batch-persistent/no-export-begins-after-shutdown-returned")
		inFlight++
		vYield()
		inFlight--
		for _, p := range rq.(*vbReq).parts {
			exported[p.origin] += p.n
		}
		return nil
	}
	vbUnderfill = false
	b := newDefaultBatcher(BatchConfig{FlushTimeout: time.Second, MinSize: 3, MaxSize: 0}, batcherSettings[request.Request]{sizerType: request.SizerTypeItems, sizer: request.NewItemsSizer(), next: next, maxWorkers: 1})
	q := newAsyncQueue(newPersistentQueue[request.Request](persistentQueueSettings[request.Request]{
		sizer:     request.RequestsSizer[request.Request]{},
		capacity:  int64(K) + 1,
		signal:    pipeline.SignalLogs,
		storageID: storageID,
		encoding:  vqpEnc{},
		id:        component.MustNewID("vexp"),
		telemetry: component.TelemetrySettings{Logger: zap.NewNop()},
	}), 1, b.Consume)
	qb := &QueueBatch{queue: q, batcher: b}
	vAssert(qb.Start(context.Background(), host) == nil, "queue-batch-persistent/start-ok")
	accepted := map[int]bool{}
	for i := 0; i < K; i++ {
		offered[i] = 1
		if qb.Send(context.Background(), &vbReq{parts: []vbPart{{origin: i, n: 1}}}) == nil {
			accepted[i] = true
		}
	}
	if vChoice("consumer-runs-before-shutdown", 2) == 1 {
		vSettle() // the consumer hands the requests to the batcher, which parks them (below min_size)
	}
	_ = qb.Shutdown(context.Background())
	stopped = true
	vAssert(inFlight == 0, "queue-batch-persistent/all-export-calls-returned-when-shutdown-returns")
	if med.closed > 0 && med.closeFail {
		vReach("close-failed") // reported by Shutdown or only logged (when the last completion closes the client): not part of the property
	}
	vSettle()
	vAssert(vLiveGoroutines() == 0, "queue-batch-persistent/no-helper-goroutine-left-running")
	// every accepted request was exported by the time shutdown returned, or is still stored
	stored := 0
	for k := range med.m {
		if k != "ri" && k != "wi" && k != "di" && k != "si" {
			stored++
		}
	}
	pending := 0
	for i := 0; i < K; i++ {
		if accepted[i] && exported[i] == 0 {
			pending++
		}
		vAssert(exported[i] <= offered[i], "queue-batch-persistent/nothing-exported-twice-in-one-run")
	}
	vAssert(pending <= stored, "queue-batch-persistent/request-enqueued-before-shutdown-finished-or-still-stored")
	vReach("end")
}
