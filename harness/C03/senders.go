package PKGNAME

// C03, sender chain below the queue: retry sender -> timeout sender -> export function, as the base
// exporter assembles it.  A consumer goroutine sends one request; the backend succeeds, fails, or is
// slow (honouring the attempt's context or not); shutdown of the retry sender is requested at any
// scheduling point; the timeout timer may fire at any point.  The queue's shutdown joins its consumer
// goroutines, so "shutdown returned" is "the consumer's Send returned": at that point every export
// call must have returned, none may start later and no helper goroutine may be left.

import (
	"context"
	"errors"
	"time"

	"github.com/cenkalti/backoff/v5"
	"go.uber.org/zap"

	"go.opentelemetry.io/collector/component"
	"go.opentelemetry.io/collector/config/configretry"
	"go.opentelemetry.io/collector/exporter"
	"go.opentelemetry.io/collector/exporter/exporterhelper/internal/request"
	"go.opentelemetry.io/collector/exporter/exporterhelper/internal/sender"
)

type vc03sReq struct{}

func (r *vc03sReq) ItemsCount() int { return 1 }
func (r *vc03sReq) MergeSplit(context.Context, int, request.SizerType, request.Request) ([]request.Request, error) {
	return []request.Request{r}, nil
}
func (r *vc03sReq) OnError(error) request.Request { return r }

func vc03sNextBackOff(*backoff.ExponentialBackOff) time.Duration {
	d := time.Duration(vNondetInt64("backoff"))
	vAssume(d >= 0 && d <= 1<<40)
	return d
}

func VerifC03SenderChain() {
	A := vParam("attempts")
	running, calls := 0, 0
	release := make(chan struct{})
	export := sender.NewSender(func(ctx context.Context, _ request.Request) error {
		running++
		calls++
		defer func() { running-- }()
		nk := 5
		if calls >= A {
			nk = 1 // bound on the number of attempts: the last one succeeds at once
		}
		switch vChoice("backend", nk) {
		case 0:
			return nil
		case 1:
			return errors.New("transient")
		case 2: // slow, does not look at the context: returns when the backend answers
			<-release
			return nil
		case 3: // slow, honours the context
			select {
			case <-release:
				return errors.New("transient, late")
			case <-ctx.Done():
				return ctx.Err()
			}
		default: // slow, fails late without looking at the context
			<-release
			return errors.New("transient, late")
		}
	})
	timeout := time.Duration(vNondetInt64("timeout"))
	vAssume(timeout > 0 && timeout <= 1<<40)
	ts := newTimeoutSender(TimeoutConfig{Timeout: timeout}, export)
	cfg := configretry.BackOffConfig{Enabled: true, InitialInterval: time.Second, MaxInterval: time.Minute, Multiplier: 1.5, RandomizationFactor: 0.5}
	rs := newRetrySender(cfg, exporter.Settings{TelemetrySettings: component.TelemetrySettings{Logger: zap.NewNop()}}, ts)
	vAssert(rs.Start(context.Background(), nil) == nil && ts.Start(context.Background(), nil) == nil, "sender-chain/starts")

	done := make(chan error, 1)
	go func() { done <- rs.Send(context.Background(), &vc03sReq{}) }() // the queue's consumer goroutine
	go func() { close(release) }()                                      // the backend answers at some point
	// shutdown is requested at whatever point this goroutine is scheduled
	vAssert(rs.Shutdown(context.Background()) == nil, "sender-chain/retry-sender-shutdown-ok")
	<-done // queue shutdown: consumer goroutines joined
	vAssert(running == 0, "sender-chain/all-export-calls-returned-when-the-consumers-are-joined")
	vAssert(ts.Shutdown(context.Background()) == nil, "sender-chain/timeout-sender-shutdown-ok")
	atReturn := calls
	vSettle()
	vAssert(calls == atReturn, "sender-chain/no-export-call-begins-after-shutdown-returned")
	vAssert(running == 0, "sender-chain/no-export-call-running-after-shutdown-returned")
	vAssert(vLiveGoroutines() == 0, "sender-chain/no-helper-goroutine-left-running")
	vReach("end")
}
