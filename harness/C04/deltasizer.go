package PKGNAME

// C04 (size limits, bytes sizer): the increment the byte-sized splitters charge for nesting an element
// of n bytes into its parent must be what protobuf really adds: one tag byte, the varint-encoded
// length of n, and the n bytes.  n symbolic over the whole non-negative int range; the varint length
// is computed by the textbook loop and, independently, by encoding n into a buffer.

import "encoding/binary"

func VerifC04DeltaSizer() {
	n := vNondetInt("element_size")
	vAssume(n >= 0)
	s := &protoDeltaSizer{}
	got := s.DeltaSize(n)
	// reference 1: the loop from the protobuf encoding documentation
	l := 1
	for v := uint64(n); v >= 0x80; v >>= 7 {
		l++
	}
	vAssert(got == 1+l+n, "delta-sizer/increment-is-tag-plus-varint-length-plus-payload")
	// reference 2: the standard library's encoder
	var buf [binary.MaxVarintLen64]byte
	vAssert(sov(uint64(n)) == binary.PutUvarint(buf[:], uint64(n)), "delta-sizer/varint-length-equals-encoded-length")
	if n == 0 {
		vReach("zero")
	}
	vReach("end")
}
