package PKGNAME

// C04 (logs): MergeSplit of logsRequest on real pdata. Shapes are chosen exhaustively within the
// bound, the size limit is symbolic, every record and every context field carries a distinct tag.

import (
	"context"
	"strconv"

	"go.opentelemetry.io/collector/exporter/exporterhelper/internal/sizer"
	"go.opentelemetry.io/collector/pdata/plog"
	"go.opentelemetry.io/collector/pdata/pcommon"
)

type vc04LogItem struct {
	id                        uint64
	rattr, rschema            string
	sname, sversion, sschema  string
}

// vc04BuildLogs builds a payload of nr resources x ns scopes with 1..maxL records per scope.
// With bytesMode the record bodies are strings of symbolic length (content unobservable).
func vc04BuildLogs(tag string, nextID *uint64, maxL int, bytesMode bool, bodyMax int) (plog.Logs, []vc04LogItem) {
	ld := plog.NewLogs()
	var items []vc04LogItem
	maxR, symLeft := 2, 0
	if bytesMode {
		maxR, symLeft = vParam("maxR"), vParam("symBodies")
	}
	nr := 1 + vChoice(tag+"-resources", maxR)
	for r := 0; r < nr; r++ {
		rl := ld.ResourceLogs().AppendEmpty()
		rattr := tag + "r" + strconv.Itoa(r)
		rl.Resource().Attributes().PutStr("res", rattr)
		rl.SetSchemaUrl("rs:" + rattr)
		ns := 1 + vChoice(tag+"-scopes", 2)
		for s := 0; s < ns; s++ {
			sl := rl.ScopeLogs().AppendEmpty()
			sname := rattr + "s" + strconv.Itoa(s)
			sl.Scope().SetName(sname)
			sl.Scope().SetVersion("v" + sname)
			sl.SetSchemaUrl("ss:" + sname)
			nl := 1 + vChoice(tag+"-records", maxL)
			for l := 0; l < nl; l++ {
				lr := sl.LogRecords().AppendEmpty()
				*nextID++
				lr.SetTimestamp(pcommon.Timestamp(*nextID))
				if bytesMode {
					if symLeft > 0 {
						symLeft--
						lr.Body().SetStr(vNondetLenString("body", bodyMax))
					} else {
						lr.Body().SetStr("abc")
					}
				}
				items = append(items, vc04LogItem{id: *nextID, rattr: rattr, rschema: "rs:" + rattr, sname: sname, sversion: "v" + sname, sschema: "ss:" + sname})
			}
		}
	}
	return ld, items
}

func vc04FlattenLogs(ld plog.Logs) []vc04LogItem {
	var out []vc04LogItem
	for r := 0; r < ld.ResourceLogs().Len(); r++ {
		rl := ld.ResourceLogs().At(r)
		rattr := ""
		if v, ok := rl.Resource().Attributes().Get("res"); ok {
			rattr = v.Str()
		}
		for s := 0; s < rl.ScopeLogs().Len(); s++ {
			sl := rl.ScopeLogs().At(s)
			for l := 0; l < sl.LogRecords().Len(); l++ {
				out = append(out, vc04LogItem{
					id: uint64(sl.LogRecords().At(l).Timestamp()), rattr: rattr, rschema: rl.SchemaUrl(),
					sname: sl.Scope().Name(), sversion: sl.Scope().Version(), sschema: sl.SchemaUrl(),
				})
			}
		}
	}
	return out
}

func vc04CheckLogs(res []Request, in []vc04LogItem, maxSize int, sz sizer.LogsSizer, lbl string) {
	vAssert(len(res) > 0, lbl+"/result-non-empty")
	seen := map[uint64]int{}
	total := 0
	for i, r := range res {
		lr := r.(*logsRequest)
		flat := vc04FlattenLogs(lr.ld)
		total += len(flat)
		if len(res) > 1 || len(in) > 0 {
			vAssert(len(flat) > 0 || (i == len(res)-1 && len(in) == 0), lbl+"/no-empty-batch")
		}
		// size recomputed from scratch with the real sizer (not the request's memoised size)
		real := sz.LogsSize(lr.ld)
		if maxSize > 0 {
			vAssert(real <= maxSize || len(flat) == 1, lbl+"/batch-within-max-size-unless-single-item")
		}
		for _, it := range flat {
			seen[it.id]++
			var want *vc04LogItem
			for k := range in {
				if in[k].id == it.id {
					want = &in[k]
				}
			}
			vAssert(want != nil, lbl+"/no-invented-item")
			if want != nil {
				vAssert(it.rattr == want.rattr, lbl+"/item-keeps-resource")
				vAssert(it.rschema == want.rschema, lbl+"/item-keeps-resource-schema-url")
				vAssert(it.sname == want.sname && it.sversion == want.sversion, lbl+"/item-keeps-scope")
				vAssert(it.sschema == want.sschema, lbl+"/item-keeps-scope-schema-url")
			}
		}
	}
	vAssert(total == len(in), lbl+"/item-count-conserved")
	for _, it := range in {
		vAssert(seen[it.id] == 1, lbl+"/every-item-exactly-once")
	}
}

// VerifC04LogsItems: items sizer, symbolic max size, optional second request merged in, then a
// second MergeSplit on the remainder (so that a stale memoised size gets the chance to matter).
func VerifC04LogsItems() {
	var id uint64
	maxL := vParam("maxL")
	ld1, in1 := vc04BuildLogs("a", &id, maxL, false, 0)
	req := newLogsRequest(ld1).(*logsRequest)
	in := in1
	var r2 Request
	if vChoice("merge", 2) == 1 {
		ld2, in2 := vc04BuildLogs("b", &id, 1, false, 0)
		r2 = newLogsRequest(ld2)
		in = append(in, in2...)
	}
	maxSize := vNondetInt("max_size")
	vAssume(maxSize >= 1 && maxSize <= 1<<30)
	sz := &sizer.LogsCountSizer{}
	res, err := req.MergeSplit(context.Background(), maxSize, RequestSizerTypeItems, r2)
	vAssert(err == nil, "logs-items/no-error")
	vc04CheckLogs(res, in, maxSize, sz, "logs-items")
	if len(res) > 1 {
		vReach("split")
	}
	vReach("end")
}

// VerifC04LogsBytes: bytes sizer; record bodies have symbolic lengths so that sizes cross the
// length-prefix boundaries (127/128, 16383/16384).
func VerifC04LogsBytes() {
	var id uint64
	ld1, in := vc04BuildLogs("a", &id, vParam("maxL"), true, vParam("bodyMax"))
	req := newLogsRequest(ld1).(*logsRequest)
	maxSize := vNondetInt("max_size")
	vAssume(maxSize >= 1 && maxSize <= 1<<30)
	sz := &sizer.LogsBytesSizer{}
	res, err := req.MergeSplit(context.Background(), maxSize, RequestSizerTypeBytes, nil)
	vAssert(err == nil, "logs-bytes/no-error")
	vc04CheckLogs(res, in, maxSize, sz, "logs-bytes")
	if len(res) > 1 {
		vReach("split")
	}
	vReach("end")
}
