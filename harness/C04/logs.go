package PKGNAME

// C04 (logs): MergeSplit of logsRequest on real pdata. Shapes are chosen exhaustively within the
// bound, the size limit is symbolic, every record and every context field carries a distinct tag.

import (
	"context"

	"go.opentelemetry.io/collector/exporter/exporterhelper/internal/sizer"
)

func vc04CheckLogs(res []Request, in []vc04LogItem, maxSize int, sz sizer.LogsSizer, lbl string) {
	vAssert(len(res) > 0, lbl+"/result-non-empty")
	seen := map[uint64]int{}
	total := 0
	for i, r := range res {
		lr := r.(*logsRequest)
		flat := vc04FlattenLogs(lr.ld)
		total += len(flat)
		if len(res) > 1 || len(in) > 0 {
			vAssert(len(flat) > 0 || (i == len(res)-1 && len(in) == 0), lbl+"/no-empty-batch")
		}
		// size recomputed from scratch with the real sizer (not the request's memoised size)
		real := sz.LogsSize(lr.ld)
		if maxSize > 0 {
			vAssert(real <= maxSize || len(flat) == 1, lbl+"/batch-within-max-size-unless-single-item")
		}
		for _, it := range flat {
			seen[it.id]++
			var want *vc04LogItem
			for k := range in {
				if in[k].id == it.id {
					want = &in[k]
				}
			}
			vAssert(want != nil, lbl+"/no-invented-item")
			if want != nil {
				vAssert(it.rattr == want.rattr, lbl+"/item-keeps-resource")
				vAssert(it.rschema == want.rschema, lbl+"/item-keeps-resource-schema-url")
				vAssert(it.sname == want.sname && it.sversion == want.sversion, lbl+"/item-keeps-scope")
				vAssert(it.sschema == want.sschema, lbl+"/item-keeps-scope-schema-url")
			}
		}
	}
	vAssert(total == len(in), lbl+"/item-count-conserved")
	for _, it := range in {
		vAssert(seen[it.id] == 1, lbl+"/every-item-exactly-once")
	}
}

// VerifC04LogsItems: items sizer, symbolic max size, optional second request merged in, then a
// second MergeSplit on the remainder (so that a stale memoised size gets the chance to matter).
func VerifC04LogsItems() {
	var id uint64
	maxL := vParam("maxL")
	ld1, in1 := vc04BuildLogs("a", &id, maxL, false, 0)
	req := newLogsRequest(ld1).(*logsRequest)
	in := in1
	var r2 Request
	if vChoice("merge", 2) == 1 {
		ld2, in2 := vc04BuildLogs("b", &id, 1, false, 0)
		r2 = newLogsRequest(ld2)
		in = append(in, in2...)
	}
	maxSize := vNondetInt("max_size")
	vAssume(maxSize >= 1 && maxSize <= 1<<30)
	sz := &sizer.LogsCountSizer{}
	// the sending queue sizes every request with ITS sizer before the batcher sees it (the legacy
	// batcher always splits by items): none / requests / items / bytes
	if k := vChoice("sized-by-the-queue-with", 4); k > 0 {
		st := []RequestSizerType{RequestSizerTypeRequests, RequestSizerTypeItems, RequestSizerTypeBytes}[k-1]
		_ = NewLogsQueueBatchSettings().Sizers[st].Sizeof(req)
	}
	res, err := req.MergeSplit(context.Background(), maxSize, RequestSizerTypeItems, r2)
	vAssert(err == nil, "logs-items/no-error")
	vc04CheckLogs(res, in, maxSize, sz, "logs-items")
	if len(res) > 1 {
		vReach("split")
		// what the batcher does next: the last part (the remainder, possibly below min_size) is parked
		// and the next request is merged into it — a second MergeSplit, on a request produced by a split
		if vParam("second") == 1 && r2 == nil {
			rem := res[len(res)-1].(*logsRequest)
			in2 := vc04FlattenLogs(rem.ld)
			ld3, in3 := vc04BuildLogs("c", &id, 1, false, 0)
			res2, err2 := rem.MergeSplit(context.Background(), maxSize, RequestSizerTypeItems, newLogsRequest(ld3))
			vAssert(err2 == nil, "logs-items/second/no-error")
			vc04CheckLogs(res2, append(in2, in3...), maxSize, sz, "logs-items/second")
			vReach("second")
		}
	}
	vReach("end")
}

// VerifC04LogsBytes: bytes sizer; record bodies have symbolic lengths so that sizes cross the
// length-prefix boundaries (127/128, 16383/16384).
func VerifC04LogsBytes() {
	var id uint64
	ld1, in := vc04BuildLogs("a", &id, vParam("maxL"), true, vParam("bodyMax"))
	req := newLogsRequest(ld1).(*logsRequest)
	maxSize := vNondetInt("max_size")
	vAssume(maxSize >= 1 && maxSize <= 1<<30)
	sz := &sizer.LogsBytesSizer{}
	res, err := req.MergeSplit(context.Background(), maxSize, RequestSizerTypeBytes, nil)
	vAssert(err == nil, "logs-bytes/no-error")
	vc04CheckLogs(res, in, maxSize, sz, "logs-bytes")
	if len(res) > 1 {
		vReach("split")
	}
	vReach("end")
}
