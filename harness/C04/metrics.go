package PKGNAME

// C04 (metrics): MergeSplit of metricsRequest with the items sizer on real pdata; every data point
// must keep its resource, scope, schema URLs and the identity of its metric: name, unit,
// description, type, temporality / monotonicity and metadata.

import (
	"context"

	"go.opentelemetry.io/collector/exporter/exporterhelper/internal/sizer"
)

func VerifC04MetricsItems() {
	var id uint64
	md, in := vc04BuildMetrics("a", &id, vParam("maxP"))
	req := newMetricsRequest(md).(*metricsRequest)
	maxSize := vNondetInt("max_size")
	vAssume(maxSize >= 1 && maxSize <= 1<<30)
	sz := &sizer.MetricsCountSizer{}
	res, err := req.MergeSplit(context.Background(), maxSize, RequestSizerTypeItems, nil)
	vAssert(err == nil, "metrics-items/no-error")
	vAssert(len(res) > 0, "metrics-items/result-non-empty")
	seen := map[uint64]int{}
	total := 0
	find := func(id uint64) *vc04Point {
		var want *vc04Point
		for k := range in {
			if in[k].id == id {
				want = &in[k]
			}
		}
		return want
	}
	// first pass: everything but the metric-level identity (whose loss on a data-point split is a known
	// finding that would end the path before the remaining clauses were looked at)
	for _, r := range res {
		mr := r.(*metricsRequest)
		flat := vc04FlattenMetrics(mr.md)
		total += len(flat)
		vAssert(len(flat) > 0, "metrics-items/no-empty-batch")
		vAssert(sz.MetricsSize(mr.md) <= maxSize || len(flat) == 1, "metrics-items/batch-within-max-size-unless-single-item")
		for _, it := range flat {
			seen[it.id]++
			want := find(it.id)
			vAssert(want != nil, "metrics-items/no-invented-item")
			if want == nil {
				continue
			}
			ty := vc04TypeName(want.mtype)
			vAssert(it.rattr == want.rattr && it.rschema == want.rschema, "metrics-items/point-keeps-resource-and-schema-url")
			vAssert(it.sname == want.sname && it.sschema == want.sschema, "metrics-items/point-keeps-scope-and-schema-url")
			vAssert(it.mtype == want.mtype, "metrics-items/point-keeps-metric-type/"+ty)
		}
	}
	vAssert(total == len(in), "metrics-items/item-count-conserved")
	for _, it := range in {
		vAssert(seen[it.id] == 1, "metrics-items/every-item-exactly-once")
	}
	// second pass: metric-level identity
	for _, r := range res {
		for _, it := range vc04FlattenMetrics(r.(*metricsRequest).md) {
			want := find(it.id)
			if want == nil {
				continue
			}
			ty := vc04TypeName(want.mtype)
			vAssert(it.mname == want.mname, "metrics-items/point-keeps-metric-name/"+ty)
			vAssert(it.munit == want.munit, "metrics-items/point-keeps-metric-unit/"+ty)
			vAssert(it.mdesc == want.mdesc, "metrics-items/point-keeps-metric-description/"+ty)
			vAssert(it.mmeta == want.mmeta, "metrics-items/point-keeps-metric-metadata/"+ty)
			vAssert(it.temporality == want.temporality, "metrics-items/point-keeps-temporality/"+ty)
			vAssert(it.monotonic == want.monotonic, "metrics-items/point-keeps-monotonicity/"+ty)
		}
	}
	if len(res) > 1 {
		vReach("split")
	}
	vReach("end")
}
