package PKGNAME

// C04 (metrics): MergeSplit of metricsRequest with the items sizer on real pdata; every data point
// must keep its resource, scope, schema URLs and the identity of its metric: name, unit,
// description, type, temporality / monotonicity and metadata.

import (
	"context"
	"strconv"

	"go.opentelemetry.io/collector/exporter/exporterhelper/internal/sizer"
	"go.opentelemetry.io/collector/pdata/pcommon"
	"go.opentelemetry.io/collector/pdata/pmetric"
)

type vc04Point struct {
	id                               uint64
	rattr, rschema                   string
	sname, sschema                   string
	mname, munit, mdesc, mmeta       string
	mtype                            pmetric.MetricType
	temporality                      pmetric.AggregationTemporality
	monotonic                        bool
}

func vc04TypeName(t pmetric.MetricType) string {
	switch t {
	case pmetric.MetricTypeGauge:
		return "gauge"
	case pmetric.MetricTypeSum:
		return "sum"
	case pmetric.MetricTypeHistogram:
		return "histogram"
	case pmetric.MetricTypeExponentialHistogram:
		return "exphistogram"
	case pmetric.MetricTypeSummary:
		return "summary"
	}
	return "empty"
}

func vc04BuildMetrics(tag string, nextID *uint64, maxP int) (pmetric.Metrics, []vc04Point) {
	md := pmetric.NewMetrics()
	var pts []vc04Point
	nr := 1 + vChoice(tag+"-resources", vParam("maxR"))
	for r := 0; r < nr; r++ {
		rm := md.ResourceMetrics().AppendEmpty()
		rattr := tag + "r" + strconv.Itoa(r)
		rm.Resource().Attributes().PutStr("res", rattr)
		rm.SetSchemaUrl("rs:" + rattr)
		sm := rm.ScopeMetrics().AppendEmpty()
		sname := rattr + "s0"
		sm.Scope().SetName(sname)
		sm.SetSchemaUrl("ss:" + sname)
		nm := 1 + vChoice(tag+"-metrics", 2)
		for m := 0; m < nm; m++ {
			me := sm.Metrics().AppendEmpty()
			mname := sname + "m" + strconv.Itoa(m)
			me.SetName(mname)
			me.SetUnit("u:" + mname)
			me.SetDescription("d:" + mname)
			me.Metadata().PutStr("meta", "x:"+mname)
			base := vc04Point{rattr: rattr, rschema: "rs:" + rattr, sname: sname, sschema: "ss:" + sname,
				mname: mname, munit: "u:" + mname, mdesc: "d:" + mname, mmeta: "x:" + mname}
			np := 1 + vChoice(tag+"-points", maxP)
			add := func() uint64 { *nextID++; p := base; p.id = *nextID; pts = append(pts, p); return *nextID }
			switch vChoice(tag+"-type", 5) {
			case 0:
				base.mtype = pmetric.MetricTypeGauge
				g := me.SetEmptyGauge()
				for i := 0; i < np; i++ {
					g.DataPoints().AppendEmpty().SetTimestamp(pcommon.Timestamp(add()))
				}
			case 1:
				base.mtype = pmetric.MetricTypeSum
				base.temporality = pmetric.AggregationTemporalityCumulative
				base.monotonic = true
				s := me.SetEmptySum()
				s.SetAggregationTemporality(pmetric.AggregationTemporalityCumulative)
				s.SetIsMonotonic(true)
				for i := 0; i < np; i++ {
					s.DataPoints().AppendEmpty().SetTimestamp(pcommon.Timestamp(add()))
				}
			case 2:
				base.mtype = pmetric.MetricTypeHistogram
				base.temporality = pmetric.AggregationTemporalityDelta
				h := me.SetEmptyHistogram()
				h.SetAggregationTemporality(pmetric.AggregationTemporalityDelta)
				for i := 0; i < np; i++ {
					h.DataPoints().AppendEmpty().SetTimestamp(pcommon.Timestamp(add()))
				}
			case 3:
				base.mtype = pmetric.MetricTypeExponentialHistogram
				base.temporality = pmetric.AggregationTemporalityCumulative
				h := me.SetEmptyExponentialHistogram()
				h.SetAggregationTemporality(pmetric.AggregationTemporalityCumulative)
				for i := 0; i < np; i++ {
					h.DataPoints().AppendEmpty().SetTimestamp(pcommon.Timestamp(add()))
				}
			case 4:
				base.mtype = pmetric.MetricTypeSummary
				s := me.SetEmptySummary()
				for i := 0; i < np; i++ {
					s.DataPoints().AppendEmpty().SetTimestamp(pcommon.Timestamp(add()))
				}
			}
		}
	}
	return md, pts
}

func vc04FlattenMetrics(md pmetric.Metrics) []vc04Point {
	var out []vc04Point
	for r := 0; r < md.ResourceMetrics().Len(); r++ {
		rm := md.ResourceMetrics().At(r)
		rattr := ""
		if v, ok := rm.Resource().Attributes().Get("res"); ok {
			rattr = v.Str()
		}
		for s := 0; s < rm.ScopeMetrics().Len(); s++ {
			sm := rm.ScopeMetrics().At(s)
			for m := 0; m < sm.Metrics().Len(); m++ {
				me := sm.Metrics().At(m)
				base := vc04Point{rattr: rattr, rschema: rm.SchemaUrl(), sname: sm.Scope().Name(), sschema: sm.SchemaUrl(),
					mname: me.Name(), munit: me.Unit(), mdesc: me.Description(), mtype: me.Type()}
				if v, ok := me.Metadata().Get("meta"); ok {
					base.mmeta = v.Str()
				}
				emit := func(ts pcommon.Timestamp) { p := base; p.id = uint64(ts); out = append(out, p) }
				switch me.Type() {
				case pmetric.MetricTypeGauge:
					for i := 0; i < me.Gauge().DataPoints().Len(); i++ {
						emit(me.Gauge().DataPoints().At(i).Timestamp())
					}
				case pmetric.MetricTypeSum:
					base.temporality, base.monotonic = me.Sum().AggregationTemporality(), me.Sum().IsMonotonic()
					for i := 0; i < me.Sum().DataPoints().Len(); i++ {
						emit(me.Sum().DataPoints().At(i).Timestamp())
					}
				case pmetric.MetricTypeHistogram:
					base.temporality = me.Histogram().AggregationTemporality()
					for i := 0; i < me.Histogram().DataPoints().Len(); i++ {
						emit(me.Histogram().DataPoints().At(i).Timestamp())
					}
				case pmetric.MetricTypeExponentialHistogram:
					base.temporality = me.ExponentialHistogram().AggregationTemporality()
					for i := 0; i < me.ExponentialHistogram().DataPoints().Len(); i++ {
						emit(me.ExponentialHistogram().DataPoints().At(i).Timestamp())
					}
				case pmetric.MetricTypeSummary:
					for i := 0; i < me.Summary().DataPoints().Len(); i++ {
						emit(me.Summary().DataPoints().At(i).Timestamp())
					}
				}
			}
		}
	}
	return out
}

func VerifC04MetricsItems() {
	var id uint64
	md, in := vc04BuildMetrics("a", &id, vParam("maxP"))
	req := newMetricsRequest(md).(*metricsRequest)
	maxSize := vNondetInt("max_size")
	vAssume(maxSize >= 1 && maxSize <= 1<<30)
	sz := &sizer.MetricsCountSizer{}
	res, err := req.MergeSplit(context.Background(), maxSize, RequestSizerTypeItems, nil)
	vAssert(err == nil, "metrics-items/no-error")
	vAssert(len(res) > 0, "metrics-items/result-non-empty")
	seen := map[uint64]int{}
	total := 0
	for _, r := range res {
		mr := r.(*metricsRequest)
		flat := vc04FlattenMetrics(mr.md)
		total += len(flat)
		vAssert(len(flat) > 0, "metrics-items/no-empty-batch")
		vAssert(sz.MetricsSize(mr.md) <= maxSize || len(flat) == 1, "metrics-items/batch-within-max-size-unless-single-item")
		for _, it := range flat {
			seen[it.id]++
			var want *vc04Point
			for k := range in {
				if in[k].id == it.id {
					want = &in[k]
				}
			}
			vAssert(want != nil, "metrics-items/no-invented-item")
			if want == nil {
				continue
			}
			ty := vc04TypeName(want.mtype)
			vAssert(it.rattr == want.rattr && it.rschema == want.rschema, "metrics-items/point-keeps-resource-and-schema-url")
			vAssert(it.sname == want.sname && it.sschema == want.sschema, "metrics-items/point-keeps-scope-and-schema-url")
			vAssert(it.mtype == want.mtype, "metrics-items/point-keeps-metric-type/"+ty)
			vAssert(it.mname == want.mname, "metrics-items/point-keeps-metric-name/"+ty)
			vAssert(it.munit == want.munit, "metrics-items/point-keeps-metric-unit/"+ty)
			vAssert(it.mdesc == want.mdesc, "metrics-items/point-keeps-metric-description/"+ty)
			vAssert(it.mmeta == want.mmeta, "metrics-items/point-keeps-metric-metadata/"+ty)
			vAssert(it.temporality == want.temporality, "metrics-items/point-keeps-temporality/"+ty)
			vAssert(it.monotonic == want.monotonic, "metrics-items/point-keeps-monotonicity/"+ty)
		}
	}
	vAssert(total == len(in), "metrics-items/item-count-conserved")
	for _, it := range in {
		vAssert(seen[it.id] == 1, "metrics-items/every-item-exactly-once")
	}
	if len(res) > 1 {
		vReach("split")
	}
	vReach("end")
}
