package PKGNAME

// C04 (traces): MergeSplit of tracesRequest with the items sizer on real pdata.

import (
	"context"

	"go.opentelemetry.io/collector/exporter/exporterhelper/internal/sizer"
)

func VerifC04TracesItems() {
	var id uint64
	td, in := vc04BuildTraces("a", &id, vParam("maxL"))
	req := newTracesRequest(td).(*tracesRequest)
	var r2 Request
	if vChoice("merge", 2) == 1 {
		td2, in2 := vc04BuildTraces("b", &id, 1)
		r2 = newTracesRequest(td2)
		in = append(in, in2...)
	}
	maxSize := vNondetInt("max_size")
	vAssume(maxSize >= 1 && maxSize <= 1<<30)
	sz := &sizer.TracesCountSizer{}
	res, err := req.MergeSplit(context.Background(), maxSize, RequestSizerTypeItems, r2)
	vAssert(err == nil, "traces-items/no-error")
	vAssert(len(res) > 0, "traces-items/result-non-empty")
	seen := map[uint64]int{}
	total := 0
	for _, r := range res {
		tr := r.(*tracesRequest)
		flat := vc04FlattenTraces(tr.td)
		total += len(flat)
		vAssert(len(flat) > 0, "traces-items/no-empty-batch")
		vAssert(sz.TracesSize(tr.td) <= maxSize || len(flat) == 1, "traces-items/batch-within-max-size-unless-single-item")
		for _, it := range flat {
			seen[it.id]++
			var want *vc04Span
			for k := range in {
				if in[k].id == it.id {
					want = &in[k]
				}
			}
			vAssert(want != nil, "traces-items/no-invented-item")
			if want != nil {
				vAssert(it.rattr == want.rattr && it.rschema == want.rschema, "traces-items/span-keeps-resource-and-schema-url")
				vAssert(it.sname == want.sname && it.sversion == want.sversion && it.sschema == want.sschema, "traces-items/span-keeps-scope-and-schema-url")
			}
		}
	}
	vAssert(total == len(in), "traces-items/item-count-conserved")
	for _, it := range in {
		vAssert(seen[it.id] == 1, "traces-items/every-item-exactly-once")
	}
	if len(res) > 1 {
		vReach("split")
	}
	vReach("end")
}
