package PKGNAME

// C04 (traces, bytes sizer): scope names of symbolic length, so that the size reserved for the
// duplicated scope header matters; every batch recomputed from scratch must respect max_size
// unless it holds a single span.

import (
	"context"

	"go.opentelemetry.io/collector/exporter/exporterhelper/internal/sizer"
	"go.opentelemetry.io/collector/pdata/pcommon"
	"go.opentelemetry.io/collector/pdata/ptrace"
)

func VerifC04TracesBytes() {
	td := ptrace.NewTraces()
	rs := td.ResourceSpans().AppendEmpty()
	ss := rs.ScopeSpans().AppendEmpty()
	ss.Scope().SetName(vNondetLenString("scope_name", vParam("nameMax")))
	ss.SetSchemaUrl("ss:0")
	n := 2 + vChoice("spans", 2)
	for i := 0; i < n; i++ {
		sp := ss.Spans().AppendEmpty()
		sp.SetStartTimestamp(pcommon.Timestamp(uint64(i + 1)))
		sp.SetName("span")
	}
	req := newTracesRequest(td).(*tracesRequest)
	maxSize := vNondetInt("max_size")
	vAssume(maxSize >= 1 && maxSize <= 1<<30)
	sz := &sizer.TracesBytesSizer{}
	res, err := req.MergeSplit(context.Background(), maxSize, RequestSizerTypeBytes, nil)
	vAssert(err == nil && len(res) > 0, "traces-bytes/result-non-empty")
	total := 0
	for _, r := range res {
		tr := r.(*tracesRequest)
		c := tr.td.SpanCount()
		total += c
		vAssert(c > 0, "traces-bytes/no-empty-batch")
		vAssert(sz.TracesSize(tr.td) <= maxSize || c == 1, "traces-bytes/batch-within-max-size-unless-single-item")
	}
	vAssert(total == n, "traces-bytes/item-count-conserved")
	if len(res) > 1 {
		vReach("split")
	}
	vReach("end")
}
