package PKGNAME

// C05 (remainder): when a failure names the undelivered subset, only that subset is left to
// resend — on the real pdata requests; any other failure leaves the request as it is.

import (
	"errors"
	"fmt"

	"go.opentelemetry.io/collector/consumer/consumererror"
	"go.opentelemetry.io/collector/pdata/pcommon"
	"go.opentelemetry.io/collector/pdata/plog"
	"go.opentelemetry.io/collector/pdata/ptrace"
)

func VerifC05OnError() {
	n := 2 + vChoice("records", 2)
	ld := plog.NewLogs()
	lrs := ld.ResourceLogs().AppendEmpty().ScopeLogs().AppendEmpty().LogRecords()
	for i := 0; i < n; i++ {
		lrs.AppendEmpty().SetTimestamp(pcommon.Timestamp(vNondetUint64("ts")))
	}
	req := newLogsRequest(ld).(*logsRequest)
	// the backend took the first k records; the remainder is what is left
	k := 1 + vChoice("delivered", n-1)
	rem := plog.NewLogs()
	rlrs := rem.ResourceLogs().AppendEmpty().ScopeLogs().AppendEmpty().LogRecords()
	for i := k; i < n; i++ {
		lrs.At(i).CopyTo(rlrs.AppendEmpty())
	}
	base := errors.New("partial failure")
	var got Request
	switch vChoice("error-shape", 4) {
	case 0:
		got = req.OnError(consumererror.NewLogs(base, rem))
	case 1:
		got = req.OnError(fmt.Errorf("wrapped: %w", consumererror.NewLogs(base, rem)))
	case 2:
		got = req.OnError(base) // no subset named: the whole request stays
		vAssert(got == Request(req), "onerror/plain-failure-keeps-the-whole-request")
		vAssert(got.ItemsCount() == n, "onerror/plain-failure-keeps-every-item")
		vReach("whole")
		return
	case 3:
		got = req.OnError(consumererror.NewTraces(base, ptrace.NewTraces())) // a remainder of another signal does not apply
		vAssert(got == Request(req), "onerror/foreign-signal-remainder-is-ignored")
		return
	}
	g := got.(*logsRequest)
	vAssert(g.ItemsCount() == n-k, "onerror/only-the-undelivered-subset-is-left")
	out := g.ld.ResourceLogs().At(0).ScopeLogs().At(0).LogRecords()
	vAssert(out.Len() == n-k, "onerror/remainder-shape")
	for i := 0; i < out.Len() && i < n-k; i++ {
		vAssert(out.At(i).Timestamp() == lrs.At(k+i).Timestamp(), "onerror/remainder-holds-exactly-the-undelivered-records")
	}
	vReach("remainder")
}
