package PKGNAME

// C05: retrySender.Send under every sequence of attempt outcomes, arbitrary clock, arbitrary
// back-off values (NextBackOff is stubbed: its body is floating point), arbitrary throttle delays,
// elapsed-time budget and request deadline, with shutdown and cancellation arriving at any point.

import (
	"fmt"
	"context"
	"errors"
	"time"

	"github.com/cenkalti/backoff/v5"

	"go.uber.org/zap"

	"go.opentelemetry.io/collector/component"
	"go.opentelemetry.io/collector/config/configretry"
	"go.opentelemetry.io/collector/consumer/consumererror"
	"go.opentelemetry.io/collector/exporter"
	"go.opentelemetry.io/collector/exporter/exporterhelper/internal/experr"
	"go.opentelemetry.io/collector/exporter/exporterhelper/internal/request"
	"go.opentelemetry.io/collector/exporter/exporterhelper/internal/sender"
)

type vc05Req struct {
	id    int
	items int
}

func (r *vc05Req) ItemsCount() int { return r.items }
func (r *vc05Req) MergeSplit(context.Context, int, request.SizerType, request.Request) ([]request.Request, error) {
	return []request.Request{r}, nil
}

// OnError: when the failure names the undelivered subset only that subset is left to send.
func (r *vc05Req) OnError(err error) request.Request {
	var p vc05Partial
	if errors.As(err, &p) {
		return p.rem
	}
	return r
}

type vc05Partial struct{ rem *vc05Req }

func (vc05Partial) Error() string { return "partial failure" }

var vc05Backoffs []time.Duration

var vc05Cfg configretry.BackOffConfig

// vc05NextBackOff replaces (*backoff.ExponentialBackOff).NextBackOff: an arbitrary non-negative duration.
// The envelope itself is floating point and outside the claim, but the object computing it must
// carry exactly the configured envelope parameters.
func vc05NextBackOff(b *backoff.ExponentialBackOff) time.Duration {
	vAssert(b.InitialInterval == vc05Cfg.InitialInterval, "backoff-envelope-uses-the-configured-initial-interval")
	vAssert(b.MaxInterval == vc05Cfg.MaxInterval, "backoff-envelope-uses-the-configured-max-interval")
	vAssert(b.Multiplier == vc05Cfg.Multiplier && b.RandomizationFactor == vc05Cfg.RandomizationFactor, "backoff-envelope-uses-the-configured-multiplier-and-randomization")
	d := time.Duration(vNondetInt64("backoff"))
	vAssume(d >= 0 && d <= 1<<40)
	vc05Backoffs = append(vc05Backoffs, d)
	return d
}

type vc05Attempt struct {
	req      *vc05Req
	err      error
	kind     int
	throttle time.Duration
	clockIdx int // index of the clock reading the sender takes right after this attempt returned
}

func VerifC05Retry() {
	A := vParam("attempts")
	vc05Backoffs = nil
	maxElapsed := time.Duration(vNondetInt64("max_elapsed"))
	vAssume(maxElapsed >= 0 && maxElapsed <= 1<<40)

	var attempts []vc05Attempt
	finished := false
	nextID := 1
	orig := &vc05Req{id: 0, items: 4}
	expected := orig
	var start int64 // clock reading taken by Send for the elapsed-time budget
	startIdx := 0
	var deadline int64
	hasDeadline := false

	next := sender.NewSender(func(ctx context.Context, rq request.Request) error {
		r := rq.(*vc05Req)
		vAssert(!finished, "no-attempt-after-success-or-permanent-error")
		vAssert(r == expected, "attempt-carries-exactly-the-retryable-remainder")
		if n := len(attempts); n > 0 {
			prev := attempts[n-1]
			// the sender decided to retry after the previous failure: check the wait and the limits it used
			wait := time.Duration(vLastTimerDuration())
			vAssert(vTimersCreated() > 0 && wait >= prev.throttle, "wait-at-least-the-throttle-delay")
			vAssert(wait >= vc05Backoffs[n-1], "wait-at-least-the-backoff-value")
			now := vClockReading(prev.clockIdx)
			if maxElapsed > 0 {
				vAssert(now+int64(wait) <= start+int64(maxElapsed), "retry-only-if-next-attempt-fits-the-elapsed-time-budget")
			}
			if hasDeadline {
				vAssert(now+int64(wait) <= deadline, "retry-only-if-next-attempt-fits-the-deadline")
			}
		}
		if len(attempts) == 0 && maxElapsed > 0 {
			start = vClockReading(startIdx)
		}
		a := vc05Attempt{req: r}
		nk := 6
		if len(attempts) == A-1 {
			nk = 2 // bound: the last allowed attempt ends the request
		}
		a.kind = vChoice("outcome", nk)
		switch a.kind {
		case 0:
			finished = true
		case 5:
			// a combined verdict: the permanent error is only reachable through a multi-error node
			a.kind = 1
			a.err = errors.Join(errors.New("one destination timed out"), consumererror.NewPermanent(errors.New("rejected")))
			finished = true
		case 1:
			a.err = consumererror.NewPermanent(errors.New("rejected"))
			finished = true
		case 2:
			a.err = errors.New("transient")
			if vParam("attemptTimeouts") == 1 && len(attempts) == 0 && vChoice("transient-is-a-per-attempt-timeout", 2) == 1 {
				// what the timeout sender below the retry sender produces when one attempt runs out of ITS
				// time: the request's own context is still alive, so this is an ordinary transient failure
				a.err = fmt.Errorf("attempt timed out: %w", context.DeadlineExceeded)
			}
		case 3:
			a.throttle = time.Duration(vNondetInt64("throttle"))
			vAssume(a.throttle >= 0 && a.throttle <= 1<<40)
			a.err = NewThrottleRetry(errors.New("slow down"), a.throttle)
		case 4:
			if r.items < 2 {
				vAssume(false)
			}
			rem := &vc05Req{id: nextID, items: r.items - 1}
			nextID++
			a.err = vc05Partial{rem: rem}
			expected = rem
		}
		a.clockIdx = vClockCount()
		attempts = append(attempts, a)
		return a.err
	})

	vc05Cfg = configretry.BackOffConfig{Enabled: true, MaxElapsedTime: maxElapsed,
		InitialInterval: time.Duration(vNondetInt64("initial_interval")), MaxInterval: time.Duration(vNondetInt64("max_interval")),
		Multiplier: 1.5, RandomizationFactor: 0.5}
	vAssume(vc05Cfg.InitialInterval > 0 && vc05Cfg.MaxInterval > 0 && vc05Cfg.InitialInterval <= 1<<40 && vc05Cfg.MaxInterval <= 1<<40)
	rs := &retrySender{
		cfg:    vc05Cfg,
		stopCh: make(chan struct{}),
		logger: zap.NewNop(),
		next:   next,
	}
	ctx := context.Background()
	cancel := func() {}
	mode := vParam("mode") // 0: sequential, deadline or not; 1: shutdown arrives at any point; 2: cancellation arrives at any point
	if mode == 0 && vChoice("deadline", 2) == 1 {
		dl := time.Duration(vNondetInt64("deadline_in"))
		vAssume(dl >= 0 && dl <= 1<<40)
		base := vClockCount()
		ctx, cancel = context.WithDeadline(ctx, time.Now().Add(dl))
		deadline = vClockReading(base) + int64(dl)
		hasDeadline = true
	} else if mode == 2 {
		ctx, cancel = context.WithCancel(ctx)
	}
	defer cancel()
	shutdownRequested, cancelRequested := false, false
	if mode == 1 {
		go func() {
			shutdownRequested = true
			_ = rs.Shutdown(context.Background())
		}()
	}
	if mode == 2 {
		go func() {
			cancelRequested = true
			cancel()
		}()
	}
	startIdx = vClockCount()
	ret := rs.Send(ctx, orig)
	_ = cancelRequested

	n := len(attempts)
	vAssert(n >= 1, "at-least-one-attempt")
	if n == 0 {
		return
	}
	last := attempts[n-1]
	vAssert((ret == nil) == (last.err == nil), "success-iff-last-attempt-succeeded")
	if last.err != nil {
		vAssert(errors.Is(ret, last.err) || errors.Is(ret, errors.Unwrap(last.err)) || ret == last.err, "returned-error-wraps-the-last-failure")
		switch {
		case last.kind == 1:
			vAssert(consumererror.IsPermanent(ret), "permanent-error-stays-permanent")
			vReach("gave-up-permanent")
		case experr.IsShutdownErr(ret):
			vAssert(shutdownRequested, "shutdown-error-only-when-shutting-down")
			vReach("interrupted-by-shutdown")
		case ctx.Err() != nil:
			vReach("cancelled-or-timed-out")
		default:
			// neither shutdown nor cancellation: giving up is justified only by the budget or the deadline
			if len(vc05Backoffs) < n || vClockCount() <= last.clockIdx {
				// the sender gave up on a transient failure without even consulting the back-off or the clock
				vAssert(false, "gives-up-only-when-the-next-attempt-does-not-fit")
				break
			}
			now := vClockReading(last.clockIdx)
			delay := vc05Backoffs[n-1]
			if last.throttle > delay {
				delay = last.throttle
			}
			over := (maxElapsed > 0 && now+int64(delay) > start+int64(maxElapsed)) || (hasDeadline && now+int64(delay) > deadline)
			vAssert(over, "gives-up-only-when-the-next-attempt-does-not-fit")
			vReach("gave-up-over-budget")
		}
	} else {
		vReach("success")
	}
	if n > 1 {
		vReach("retried")
	}
}

// VerifC05AfterShutdown: once shutdown has been requested EVERY later retry wait is interrupted —
// not only the first one: each of several requests sent afterwards ends after its first failed
// attempt with an error classified as shutdown (so a persistent queue keeps it).
func VerifC05AfterShutdown() {
	vc05Backoffs = nil
	vc05Cfg = configretry.BackOffConfig{Enabled: true, InitialInterval: time.Second, MaxInterval: time.Minute, Multiplier: 1.5, RandomizationFactor: 0.5}
	attempts, before := 0, 0
	next := sender.NewSender(func(context.Context, request.Request) error {
		attempts++
		// checked at the moment a second attempt begins (the sender may otherwise never return)
		vAssert(attempts == before+1, "after-shutdown/no-retry-while-shutting-down")
		if attempts != before+1 {
			return nil
		}
		return errors.New("transient")
	})
	rs := &retrySender{cfg: vc05Cfg, stopCh: make(chan struct{}), logger: zap.NewNop(), next: next}
	rs2 := newRetrySender(vc05Cfg, exporter.Settings{TelemetrySettings: component.TelemetrySettings{Logger: zap.NewNop()}}, next)
	if vChoice("built-by-constructor", 2) == 1 {
		rs = rs2
	}
	vAssert(rs.Shutdown(context.Background()) == nil, "after-shutdown/shutdown-ok")
	N := vParam("requests")
	for i := 0; i < N; i++ {
		before = attempts
		err := rs.Send(context.Background(), &vc05Req{id: i, items: 1})
		vAssert(attempts == before+1, "after-shutdown/no-retry-while-shutting-down")
		vAssert(experr.IsShutdownErr(err), "after-shutdown/every-interrupted-wait-ends-with-a-shutdown-error")
	}
	vReach("end")
}
