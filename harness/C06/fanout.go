package PKGNAME

// C06: the fan-out consumer for n consumers with arbitrary capability bits and error outcomes.
// Declared-mutating consumers really mutate (on receipt AND again after all siblings were called,
// through the retained reference); the input may or may not be read-only; payload scalars symbolic.

import (
	"context"
	"errors"

	"go.uber.org/multierr"

	"go.opentelemetry.io/collector/consumer"
	"go.opentelemetry.io/collector/pdata/pcommon"
	"go.opentelemetry.io/collector/pdata/plog"
	"go.opentelemetry.io/collector/pdata/ptrace"
)

type vc06LogsConsumer struct {
	idx      int
	cancel   context.CancelFunc // when set: the caller's context ends while this consumer runs
	mutates  bool
	err      error
	calls    int
	got      plog.Logs
	mutation uint64
}

func (c *vc06LogsConsumer) Capabilities() consumer.Capabilities {
	return consumer.Capabilities{MutatesData: c.mutates}
}

func (c *vc06LogsConsumer) ConsumeLogs(_ context.Context, ld plog.Logs) error {
	c.calls++
	if c.cancel != nil {
		c.cancel()
	}
	c.got = ld
	if c.mutates {
		c.mutate()
	}
	return c.err
}

// mutate changes everything a processor might change: a record field, a resource attribute, and the
// shape (one more record).
func (c *vc06LogsConsumer) mutate() {
	rl := c.got.ResourceLogs().At(0)
	rl.Resource().Attributes().PutInt("touched-by", int64(c.idx))
	// existing numeric values are updated in place as well (a value of the same type as before)
	rl.Resource().Attributes().PutInt("n", int64(c.mutation))
	rl.Resource().Attributes().PutDouble("d", 2.5)
	lrs := rl.ScopeLogs().At(0).LogRecords()
	lrs.At(0).SetTimestamp(pcommon.Timestamp(c.mutation))
	lrs.AppendEmpty().SetTimestamp(pcommon.Timestamp(c.mutation + 1))
}

type vc06Snap struct {
	ts      []uint64
	touched bool
	res     string
	n       int64
	d       float64
}

func vc06SnapLogs(ld plog.Logs) vc06Snap {
	var s vc06Snap
	rl := ld.ResourceLogs().At(0)
	if v, ok := rl.Resource().Attributes().Get("res"); ok {
		s.res = v.Str()
	}
	_, s.touched = rl.Resource().Attributes().Get("touched-by")
	if v, ok := rl.Resource().Attributes().Get("n"); ok {
		s.n = v.Int()
	}
	if v, ok := rl.Resource().Attributes().Get("d"); ok {
		s.d = v.Double()
	}
	lrs := rl.ScopeLogs().At(0).LogRecords()
	for i := 0; i < lrs.Len(); i++ {
		s.ts = append(s.ts, uint64(lrs.At(i).Timestamp()))
	}
	return s
}

func vc06Same(a, b vc06Snap) bool {
	if a.touched != b.touched || a.res != b.res || a.n != b.n || a.d != b.d || len(a.ts) != len(b.ts) {
		return false
	}
	for i := range a.ts {
		if a.ts[i] != b.ts[i] {
			return false
		}
	}
	return true
}

func VerifC06Logs() {
	n := 1 + vChoice("consumers", vParam("maxN"))
	var cs []*vc06LogsConsumer
	var lcs []consumer.Logs
	nMut, nRO := 0, 0
	var wantErrs []error
	for i := 0; i < n; i++ {
		c := &vc06LogsConsumer{idx: i, mutates: vChoice("mutates", 2) == 1, mutation: vNondetUint64("mutation")}
		if vChoice("fails", 2) == 1 {
			c.err = errors.New("consumer failed")
			wantErrs = append(wantErrs, c.err)
		}
		if c.mutates {
			nMut++
		} else {
			nRO++
		}
		cs = append(cs, c)
		lcs = append(lcs, c)
	}
	ld := plog.NewLogs()
	rl := ld.ResourceLogs().AppendEmpty()
	rl.Resource().Attributes().PutStr("res", "r0")
	rl.Resource().Attributes().PutInt("n", 7)
	rl.Resource().Attributes().PutDouble("d", 1.5)
	lrs := rl.ScopeLogs().AppendEmpty().LogRecords()
	t0, t1 := vNondetUint64("ts"), vNondetUint64("ts")
	lrs.AppendEmpty().SetTimestamp(pcommon.Timestamp(t0))
	lrs.AppendEmpty().SetTimestamp(pcommon.Timestamp(t1))
	inputRO := vChoice("input-read-only", 2) == 1
	if inputRO {
		ld.MarkReadOnly()
	}
	orig := vc06SnapLogs(ld)

	fan := NewLogs(lcs)
	// the fan-out's own capability: it may only claim not to mutate if nobody downstream can change the caller's data
	if !fan.Capabilities().MutatesData {
		vReach("advertises-non-mutating")
	}
	// a fault at a particular point: the caller's context may end while the first consumer is running;
	// the remaining consumers are still invoked and their failures still reported
	ctx, cancelCtx := context.WithCancel(context.Background())
	if vChoice("context-ends-during-the-first-consumer", 2) == 1 {
		cs[0].cancel = cancelCtx
	}
	err := fan.ConsumeLogs(ctx, ld)
	cancelCtx()

	for _, c := range cs {
		vAssert(c.calls == 1, "logs/every-consumer-invoked-exactly-once")
	}
	got := multierr.Errors(err)
	vAssert(len(got) == len(wantErrs), "logs/returned-error-aggregates-exactly-the-failures")
	for _, w := range wantErrs {
		vAssert(errors.Is(err, w), "logs/returned-error-contains-each-failure")
	}
	// async mutation through the retained reference, after all siblings were called
	for _, c := range cs {
		if c.mutates {
			c.mutation += 7
			c.mutate()
		}
	}
	for _, c := range cs {
		if c.calls != 1 {
			continue
		}
		if !c.mutates {
			vAssert(vc06Same(vc06SnapLogs(c.got), orig), "logs/non-mutating-consumer-never-observes-a-change")
		} else {
			// works on data no one else can see: exactly its own two mutations on top of the original
			s := vc06SnapLogs(c.got)
			ok := s.touched && len(s.ts) == len(orig.ts)+2 && s.ts[0] == c.mutation && s.ts[1] == orig.ts[1] && s.n == int64(c.mutation) && s.d == 2.5
			vAssert(ok, "logs/mutating-consumer-sees-only-its-own-changes")
			vAssert(!c.got.IsReadOnly(), "logs/mutating-consumer-gets-mutable-data")
		}
	}
	// data shared by several non-mutating consumers is marked read-only
	if nRO >= 2 {
		for _, c := range cs {
			if !c.mutates {
				vAssert(c.got.IsReadOnly(), "logs/shared-data-is-marked-read-only")
			}
		}
	}
	// the caller's payload: if the fan-out does not declare mutation the caller's data is unchanged
	if !fan.Capabilities().MutatesData {
		vAssert(vc06Same(vc06SnapLogs(ld), orig), "logs/caller-data-unchanged-when-fanout-declares-no-mutation")
	}
	if nMut > 0 && nRO > 0 {
		vReach("mixed")
	}
	vReach("end")
}

// ---- traces: same scheme (separate generated code) -------------------------------------------

type vc06TracesConsumer struct {
	idx      int
	cancel   context.CancelFunc // when set: the caller's context ends while this consumer runs
	mutates  bool
	err      error
	calls    int
	got      ptrace.Traces
	mutation uint64
}

func (c *vc06TracesConsumer) Capabilities() consumer.Capabilities {
	return consumer.Capabilities{MutatesData: c.mutates}
}

func (c *vc06TracesConsumer) ConsumeTraces(_ context.Context, td ptrace.Traces) error {
	c.calls++
	if c.cancel != nil {
		c.cancel()
	}
	c.got = td
	if c.mutates {
		c.mutate()
	}
	return c.err
}

func (c *vc06TracesConsumer) mutate() {
	rs := c.got.ResourceSpans().At(0)
	rs.Resource().Attributes().PutInt("touched-by", int64(c.idx))
	// existing numeric values are updated in place as well (a value of the same type as before)
	rs.Resource().Attributes().PutInt("n", int64(c.mutation))
	rs.Resource().Attributes().PutDouble("d", 2.5)
	sps := rs.ScopeSpans().At(0).Spans()
	sps.At(0).SetStartTimestamp(pcommon.Timestamp(c.mutation))
	sps.AppendEmpty().SetStartTimestamp(pcommon.Timestamp(c.mutation + 1))
}

func vc06SnapTraces(td ptrace.Traces) vc06Snap {
	var s vc06Snap
	rs := td.ResourceSpans().At(0)
	if v, ok := rs.Resource().Attributes().Get("res"); ok {
		s.res = v.Str()
	}
	_, s.touched = rs.Resource().Attributes().Get("touched-by")
	if v, ok := rs.Resource().Attributes().Get("n"); ok {
		s.n = v.Int()
	}
	if v, ok := rs.Resource().Attributes().Get("d"); ok {
		s.d = v.Double()
	}
	sps := rs.ScopeSpans().At(0).Spans()
	for i := 0; i < sps.Len(); i++ {
		s.ts = append(s.ts, uint64(sps.At(i).StartTimestamp()))
	}
	return s
}

func VerifC06Traces() {
	n := 1 + vChoice("consumers", vParam("maxN"))
	var cs []*vc06TracesConsumer
	var tcs []consumer.Traces
	nRO := 0
	var wantErrs []error
	for i := 0; i < n; i++ {
		c := &vc06TracesConsumer{idx: i, mutates: vChoice("mutates", 2) == 1, mutation: vNondetUint64("mutation")}
		if vChoice("fails", 2) == 1 {
			c.err = errors.New("consumer failed")
			wantErrs = append(wantErrs, c.err)
		}
		if !c.mutates {
			nRO++
		}
		cs = append(cs, c)
		tcs = append(tcs, c)
	}
	td := ptrace.NewTraces()
	rs := td.ResourceSpans().AppendEmpty()
	rs.Resource().Attributes().PutStr("res", "r0")
	rs.Resource().Attributes().PutInt("n", 7)
	rs.Resource().Attributes().PutDouble("d", 1.5)
	sps := rs.ScopeSpans().AppendEmpty().Spans()
	sps.AppendEmpty().SetStartTimestamp(pcommon.Timestamp(vNondetUint64("ts")))
	sps.AppendEmpty().SetStartTimestamp(pcommon.Timestamp(vNondetUint64("ts")))
	if vChoice("input-read-only", 2) == 1 {
		td.MarkReadOnly()
	}
	orig := vc06SnapTraces(td)
	fan := NewTraces(tcs)
	// a fault at a particular point: the caller's context may end while the first consumer is running;
	// the remaining consumers are still invoked and their failures still reported
	ctx, cancelCtx := context.WithCancel(context.Background())
	if vChoice("context-ends-during-the-first-consumer", 2) == 1 {
		cs[0].cancel = cancelCtx
	}
	err := fan.ConsumeTraces(ctx, td)
	cancelCtx()
	vAssert(len(multierr.Errors(err)) == len(wantErrs), "traces/returned-error-aggregates-exactly-the-failures")
	for _, w := range wantErrs {
		vAssert(errors.Is(err, w), "traces/returned-error-contains-each-failure")
	}
	for _, c := range cs {
		vAssert(c.calls == 1, "traces/every-consumer-invoked-exactly-once")
		if c.mutates {
			c.mutation += 7
			c.mutate()
		}
	}
	for _, c := range cs {
		if c.calls != 1 {
			continue
		}
		if !c.mutates {
			vAssert(vc06Same(vc06SnapTraces(c.got), orig), "traces/non-mutating-consumer-never-observes-a-change")
			if nRO >= 2 {
				vAssert(c.got.IsReadOnly(), "traces/shared-data-is-marked-read-only")
			}
		} else {
			s := vc06SnapTraces(c.got)
			ok := s.touched && len(s.ts) == len(orig.ts)+2 && s.ts[0] == c.mutation && s.ts[1] == orig.ts[1] && s.n == int64(c.mutation) && s.d == 2.5
			vAssert(ok, "traces/mutating-consumer-sees-only-its-own-changes")
		}
	}
	if !fan.Capabilities().MutatesData {
		vAssert(vc06Same(vc06SnapTraces(td), orig), "traces/caller-data-unchanged-when-fanout-declares-no-mutation")
	}
	vReach("end")
}
