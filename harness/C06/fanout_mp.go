package PKGNAME

// C06: the fan-out consumers for metrics and profiles (separate hand-written files in the real code),
// same scheme as logs: n consumers with arbitrary capability bits and error outcomes, mutating
// consumers really mutate on receipt and again later through the retained reference.

import (
	"context"
	"errors"

	"go.uber.org/multierr"

	"go.opentelemetry.io/collector/consumer"
	"go.opentelemetry.io/collector/consumer/xconsumer"
	"go.opentelemetry.io/collector/pdata/pcommon"
	"go.opentelemetry.io/collector/pdata/pmetric"
	"go.opentelemetry.io/collector/pdata/pprofile"
)

type vc06MetricsConsumer struct {
	idx      int
	mutates  bool
	err      error
	calls    int
	got      pmetric.Metrics
	mutation uint64
}

func (c *vc06MetricsConsumer) Capabilities() consumer.Capabilities {
	return consumer.Capabilities{MutatesData: c.mutates}
}

func (c *vc06MetricsConsumer) ConsumeMetrics(_ context.Context, d pmetric.Metrics) error {
	c.calls++
	c.got = d
	if c.mutates {
		c.mutate()
	}
	return c.err
}

func (c *vc06MetricsConsumer) mutate() {
	r := c.got.ResourceMetrics().At(0)
	r.Resource().Attributes().PutInt("touched-by", int64(c.idx))
	// existing numeric values are updated in place as well (a value of the same type as before)
	r.Resource().Attributes().PutInt("n", int64(c.mutation))
	r.Resource().Attributes().PutDouble("d", 2.5)
	dps := r.ScopeMetrics().At(0).Metrics().At(0).Gauge().DataPoints()
	if dps.Len() > 0 {
		dps.At(0).SetTimestamp(pcommon.Timestamp(c.mutation))
	} else {
		dps.AppendEmpty().SetTimestamp(pcommon.Timestamp(c.mutation)) // the payload carried a metric without data points
	}
	dps.AppendEmpty().SetTimestamp(pcommon.Timestamp(c.mutation + 1))
	r.ScopeMetrics().At(0).Metrics().At(0).SetName("renamed")
}

func vc06SnapMetrics(d pmetric.Metrics) vc06Snap {
	var s vc06Snap
	r := d.ResourceMetrics().At(0)
	if v, ok := r.Resource().Attributes().Get("res"); ok {
		s.res = v.Str()
	}
	_, s.touched = r.Resource().Attributes().Get("touched-by")
	if v, ok := r.Resource().Attributes().Get("n"); ok {
		s.n = v.Int()
	}
	if v, ok := r.Resource().Attributes().Get("d"); ok {
		s.d = v.Double()
	}
	m := r.ScopeMetrics().At(0).Metrics().At(0)
	s.res += "|" + m.Name()
	dps := m.Gauge().DataPoints()
	for i := 0; i < dps.Len(); i++ {
		s.ts = append(s.ts, uint64(dps.At(i).Timestamp()))
	}
	return s
}

func VerifC06Metrics() {
	n := 1 + vChoice("consumers", vParam("maxN"))
	var cs []*vc06MetricsConsumer
	var ccs []consumer.Metrics
	nMut, nRO := 0, 0
	var wantErrs []error
	for i := 0; i < n; i++ {
		c := &vc06MetricsConsumer{idx: i, mutates: vChoice("mutates", 2) == 1, mutation: vNondetUint64("mutation")}
		if vChoice("fails", 2) == 1 {
			c.err = errors.New("consumer failed")
			wantErrs = append(wantErrs, c.err)
		}
		if c.mutates {
			nMut++
		} else {
			nRO++
		}
		cs = append(cs, c)
		ccs = append(ccs, c)
	}
	d := pmetric.NewMetrics()
	r := d.ResourceMetrics().AppendEmpty()
	r.Resource().Attributes().PutStr("res", "r0")
	r.Resource().Attributes().PutInt("n", 7)
	r.Resource().Attributes().PutDouble("d", 1.5)
	m := r.ScopeMetrics().AppendEmpty().Metrics().AppendEmpty()
	m.SetName("m0")
	dps := m.SetEmptyGauge().DataPoints()
	if vChoice("metric-without-data-points", 2) == 0 {
		dps.AppendEmpty().SetTimestamp(pcommon.Timestamp(vNondetUint64("ts")))
		dps.AppendEmpty().SetTimestamp(pcommon.Timestamp(vNondetUint64("ts")))
	}
	if vChoice("input-read-only", 2) == 1 {
		d.MarkReadOnly()
	}
	orig := vc06SnapMetrics(d)
	fan := NewMetrics(ccs)
	if !fan.Capabilities().MutatesData {
		vReach("advertises-non-mutating")
	}
	err := fan.ConsumeMetrics(context.Background(), d)
	for _, c := range cs {
		vAssert(c.calls == 1, "metrics/every-consumer-invoked-exactly-once")
	}
	got := multierr.Errors(err)
	vAssert(len(got) == len(wantErrs), "metrics/returned-error-aggregates-exactly-the-failures")
	for _, w := range wantErrs {
		vAssert(errors.Is(err, w), "metrics/returned-error-contains-each-failure")
	}
	for _, c := range cs {
		if c.mutates {
			c.mutation += 7
			c.mutate()
		}
	}
	for _, c := range cs {
		if c.calls != 1 {
			continue
		}
		if !c.mutates {
			vAssert(vc06Same(vc06SnapMetrics(c.got), orig), "metrics/non-mutating-consumer-never-observes-a-change")
		} else {
			s := vc06SnapMetrics(c.got)
			ok := s.touched && len(s.ts) == len(orig.ts)+2 && s.ts[0] == c.mutation && s.ts[1] == orig.ts[1] && s.n == int64(c.mutation) && s.d == 2.5
			if len(orig.ts) == 0 {
				// a metric without data points: the first mutation appended two points, the second rewrote the first and appended one
				ok = s.touched && len(s.ts) == 3 && s.ts[0] == c.mutation && s.ts[1] == c.mutation-6 && s.ts[2] == c.mutation+1 && s.n == int64(c.mutation) && s.d == 2.5
			}
			vAssert(ok, "metrics/mutating-consumer-sees-only-its-own-changes")
			vAssert(!c.got.IsReadOnly(), "metrics/mutating-consumer-gets-mutable-data")
		}
	}
	if nRO >= 2 {
		for _, c := range cs {
			if !c.mutates {
				vAssert(c.got.IsReadOnly(), "metrics/shared-data-is-marked-read-only")
			}
		}
	}
	if !fan.Capabilities().MutatesData {
		vAssert(vc06Same(vc06SnapMetrics(d), orig), "metrics/caller-data-unchanged-when-fanout-declares-no-mutation")
	}
	if nMut > 0 && nRO > 0 {
		vReach("mixed")
	}
	vReach("end")
}

type vc06ProfilesConsumer struct {
	idx      int
	mutates  bool
	err      error
	calls    int
	got      pprofile.Profiles
	mutation uint64
}

func (c *vc06ProfilesConsumer) Capabilities() consumer.Capabilities {
	return consumer.Capabilities{MutatesData: c.mutates}
}

func (c *vc06ProfilesConsumer) ConsumeProfiles(_ context.Context, d pprofile.Profiles) error {
	c.calls++
	c.got = d
	if c.mutates {
		c.mutate()
	}
	return c.err
}

func (c *vc06ProfilesConsumer) mutate() {
	r := c.got.ResourceProfiles().At(0)
	r.Resource().Attributes().PutInt("touched-by", int64(c.idx))
	// existing numeric values are updated in place as well (a value of the same type as before)
	r.Resource().Attributes().PutInt("n", int64(c.mutation))
	r.Resource().Attributes().PutDouble("d", 2.5)
	ps := r.ScopeProfiles().At(0).Profiles()
	ps.At(0).SetTime(pcommon.Timestamp(c.mutation))
	ps.AppendEmpty().SetTime(pcommon.Timestamp(c.mutation + 1))
}

func vc06SnapProfiles(d pprofile.Profiles) vc06Snap {
	var s vc06Snap
	r := d.ResourceProfiles().At(0)
	if v, ok := r.Resource().Attributes().Get("res"); ok {
		s.res = v.Str()
	}
	_, s.touched = r.Resource().Attributes().Get("touched-by")
	if v, ok := r.Resource().Attributes().Get("n"); ok {
		s.n = v.Int()
	}
	if v, ok := r.Resource().Attributes().Get("d"); ok {
		s.d = v.Double()
	}
	ps := r.ScopeProfiles().At(0).Profiles()
	for i := 0; i < ps.Len(); i++ {
		s.ts = append(s.ts, uint64(ps.At(i).Time()))
	}
	return s
}

func VerifC06Profiles() {
	n := 1 + vChoice("consumers", vParam("maxN"))
	var cs []*vc06ProfilesConsumer
	var ccs []xconsumer.Profiles
	nMut, nRO := 0, 0
	var wantErrs []error
	for i := 0; i < n; i++ {
		c := &vc06ProfilesConsumer{idx: i, mutates: vChoice("mutates", 2) == 1, mutation: vNondetUint64("mutation")}
		if vChoice("fails", 2) == 1 {
			c.err = errors.New("consumer failed")
			wantErrs = append(wantErrs, c.err)
		}
		if c.mutates {
			nMut++
		} else {
			nRO++
		}
		cs = append(cs, c)
		ccs = append(ccs, c)
	}
	d := pprofile.NewProfiles()
	r := d.ResourceProfiles().AppendEmpty()
	r.Resource().Attributes().PutStr("res", "r0")
	r.Resource().Attributes().PutInt("n", 7)
	r.Resource().Attributes().PutDouble("d", 1.5)
	ps := r.ScopeProfiles().AppendEmpty().Profiles()
	ps.AppendEmpty().SetTime(pcommon.Timestamp(vNondetUint64("ts")))
	ps.AppendEmpty().SetTime(pcommon.Timestamp(vNondetUint64("ts")))
	if vChoice("input-read-only", 2) == 1 {
		d.MarkReadOnly()
	}
	orig := vc06SnapProfiles(d)
	fan := NewProfiles(ccs)
	if !fan.Capabilities().MutatesData {
		vReach("advertises-non-mutating")
	}
	err := fan.ConsumeProfiles(context.Background(), d)
	for _, c := range cs {
		vAssert(c.calls == 1, "profiles/every-consumer-invoked-exactly-once")
	}
	got := multierr.Errors(err)
	vAssert(len(got) == len(wantErrs), "profiles/returned-error-aggregates-exactly-the-failures")
	for _, w := range wantErrs {
		vAssert(errors.Is(err, w), "profiles/returned-error-contains-each-failure")
	}
	for _, c := range cs {
		if c.mutates {
			c.mutation += 7
			c.mutate()
		}
	}
	for _, c := range cs {
		if c.calls != 1 {
			continue
		}
		if !c.mutates {
			vAssert(vc06Same(vc06SnapProfiles(c.got), orig), "profiles/non-mutating-consumer-never-observes-a-change")
		} else {
			s := vc06SnapProfiles(c.got)
			ok := s.touched && len(s.ts) == len(orig.ts)+2 && s.ts[0] == c.mutation && s.ts[1] == orig.ts[1] && s.n == int64(c.mutation) && s.d == 2.5
			vAssert(ok, "profiles/mutating-consumer-sees-only-its-own-changes")
			vAssert(!c.got.IsReadOnly(), "profiles/mutating-consumer-gets-mutable-data")
		}
	}
	if nRO >= 2 {
		for _, c := range cs {
			if !c.mutates {
				vAssert(c.got.IsReadOnly(), "profiles/shared-data-is-marked-read-only")
			}
		}
	}
	if !fan.Capabilities().MutatesData {
		vAssert(vc06Same(vc06SnapProfiles(d), orig), "profiles/caller-data-unchanged-when-fanout-declares-no-mutation")
	}
	if nMut > 0 && nRO > 0 {
		vReach("mixed")
	}
	vReach("end")
}
