package PKGNAME

// C06 (connector routers): a consumer obtained from the traces router for any subset of pipelines
// protects its pipelines exactly like the fan-out: a mutating pipeline never receives data anyone
// else can see (in particular not a read-only payload), non-mutating ones never see a change.

import (
	"context"

	"go.opentelemetry.io/collector/consumer"
	"go.opentelemetry.io/collector/pdata/pcommon"
	"go.opentelemetry.io/collector/pdata/ptrace"
	"go.opentelemetry.io/collector/pipeline"
)

type vc06RC struct {
	idx     int
	mutates bool
	calls   int
	got     ptrace.Traces
	sawRO   bool
	panicked bool
}

func (c *vc06RC) Capabilities() consumer.Capabilities { return consumer.Capabilities{MutatesData: c.mutates} }
func (c *vc06RC) ConsumeTraces(_ context.Context, td ptrace.Traces) (err error) {
	c.calls++
	c.got = td
	c.sawRO = td.IsReadOnly()
	if c.mutates {
		defer func() {
			if r := recover(); r != nil {
				c.panicked = true
			}
		}()
		td.ResourceSpans().At(0).ScopeSpans().At(0).Spans().At(0).SetStartTimestamp(pcommon.Timestamp(1000 + c.idx))
	}
	return nil
}

func VerifC06Router() {
	ids := []pipeline.ID{pipeline.NewIDWithName(pipeline.SignalTraces, "a"), pipeline.NewIDWithName(pipeline.SignalTraces, "b")}
	cs := []*vc06RC{{idx: 0, mutates: vChoice("mutates", 2) == 1}, {idx: 1, mutates: vChoice("mutates", 2) == 1}}
	cm := map[pipeline.ID]consumer.Traces{ids[0]: cs[0], ids[1]: cs[1]}
	router := NewTracesRouter(cm)
	var sel []pipeline.ID
	var used []*vc06RC
	switch vChoice("route", 3) {
	case 0:
		sel, used = ids[:1], cs[:1]
	case 1:
		sel, used = ids[1:], cs[1:]
	default:
		sel, used = ids, cs
	}
	next, err := router.Consumer(sel...)
	vAssert(err == nil && next != nil, "router/consumer-for-known-pipelines")
	td := ptrace.NewTraces()
	sp := td.ResourceSpans().AppendEmpty().ScopeSpans().AppendEmpty().Spans().AppendEmpty()
	t0 := vNondetUint64("ts")
	sp.SetStartTimestamp(pcommon.Timestamp(t0))
	inputRO := vChoice("input-read-only", 2) == 1
	if inputRO {
		td.MarkReadOnly()
	}
	vAssert(next.ConsumeTraces(context.Background(), td) == nil, "router/consume-ok")
	for _, c := range used {
		vAssert(c.calls == 1, "router/every-selected-pipeline-invoked-once")
		if c.mutates {
			vAssert(!c.sawRO && !c.panicked, "router/mutating-pipeline-gets-mutable-private-data")
		} else {
			got := uint64(c.got.ResourceSpans().At(0).ScopeSpans().At(0).Spans().At(0).StartTimestamp())
			vAssert(got == t0, "router/non-mutating-pipeline-never-observes-a-change")
		}
	}
	for _, c := range cs {
		sel := false
		for _, u := range used {
			if u == c {
				sel = true
			}
		}
		if !sel {
			vAssert(c.calls == 0, "router/unselected-pipeline-not-invoked")
		}
	}
	if !next.Capabilities().MutatesData {
		vAssert(uint64(td.ResourceSpans().At(0).ScopeSpans().At(0).Spans().At(0).StartTimestamp()) == t0, "router/caller-data-unchanged-when-no-mutation-declared")
	}
	vReach("end")
}
