package PKGNAME

// C06 (connector routers, logs and metrics): same scheme as the traces router unit.

import (
	"context"

	"go.opentelemetry.io/collector/consumer"
	"go.opentelemetry.io/collector/pdata/pcommon"
	"go.opentelemetry.io/collector/pdata/plog"
	"go.opentelemetry.io/collector/pdata/pmetric"
	"go.opentelemetry.io/collector/pipeline"
)

type vc06RCL struct {
	idx     int
	mutates bool
	calls   int
	got     plog.Logs
	sawRO   bool
	panicked bool
}

func (c *vc06RCL) Capabilities() consumer.Capabilities { return consumer.Capabilities{MutatesData: c.mutates} }
func (c *vc06RCL) ConsumeLogs(_ context.Context, td plog.Logs) (err error) {
	c.calls++
	c.got = td
	c.sawRO = td.IsReadOnly()
	if c.mutates {
		defer func() {
			if r := recover(); r != nil {
				c.panicked = true
			}
		}()
		td.ResourceLogs().At(0).ScopeLogs().At(0).LogRecords().At(0).SetTimestamp(pcommon.Timestamp(1000 + c.idx))
	}
	return nil
}

func VerifC06RouterLogs() {
	ids := []pipeline.ID{pipeline.NewIDWithName(pipeline.SignalLogs, "a"), pipeline.NewIDWithName(pipeline.SignalLogs, "b")}
	cs := []*vc06RCL{{idx: 0, mutates: vChoice("mutates", 2) == 1}, {idx: 1, mutates: vChoice("mutates", 2) == 1}}
	cm := map[pipeline.ID]consumer.Logs{ids[0]: cs[0], ids[1]: cs[1]}
	router := NewLogsRouter(cm)
	var sel []pipeline.ID
	var used []*vc06RCL
	switch vChoice("route", 3) {
	case 0:
		sel, used = ids[:1], cs[:1]
	case 1:
		sel, used = ids[1:], cs[1:]
	default:
		sel, used = ids, cs
	}
	next, err := router.Consumer(sel...)
	vAssert(err == nil && next != nil, "router-logs/consumer-for-known-pipelines")
	td := plog.NewLogs()
	sp := td.ResourceLogs().AppendEmpty().ScopeLogs().AppendEmpty().LogRecords().AppendEmpty()
	t0 := vNondetUint64("ts")
	sp.SetTimestamp(pcommon.Timestamp(t0))
	inputRO := vChoice("input-read-only", 2) == 1
	if inputRO {
		td.MarkReadOnly()
	}
	vAssert(next.ConsumeLogs(context.Background(), td) == nil, "router-logs/consume-ok")
	for _, c := range used {
		vAssert(c.calls == 1, "router-logs/every-selected-pipeline-invoked-once")
		if c.mutates {
			vAssert(!c.sawRO && !c.panicked, "router-logs/mutating-pipeline-gets-mutable-private-data")
		} else {
			got := uint64(c.got.ResourceLogs().At(0).ScopeLogs().At(0).LogRecords().At(0).Timestamp())
			vAssert(got == t0, "router-logs/non-mutating-pipeline-never-observes-a-change")
		}
	}
	for _, c := range cs {
		sel := false
		for _, u := range used {
			if u == c {
				sel = true
			}
		}
		if !sel {
			vAssert(c.calls == 0, "router-logs/unselected-pipeline-not-invoked")
		}
	}
	if !next.Capabilities().MutatesData {
		vAssert(uint64(td.ResourceLogs().At(0).ScopeLogs().At(0).LogRecords().At(0).Timestamp()) == t0, "router-logs/caller-data-unchanged-when-no-mutation-declared")
	}
	vReach("end")
}

type vc06RCM struct {
	idx     int
	mutates bool
	calls   int
	got     pmetric.Metrics
	sawRO   bool
	panicked bool
}

func (c *vc06RCM) Capabilities() consumer.Capabilities { return consumer.Capabilities{MutatesData: c.mutates} }
func (c *vc06RCM) ConsumeMetrics(_ context.Context, td pmetric.Metrics) (err error) {
	c.calls++
	c.got = td
	c.sawRO = td.IsReadOnly()
	if c.mutates {
		defer func() {
			if r := recover(); r != nil {
				c.panicked = true
			}
		}()
		td.ResourceMetrics().At(0).ScopeMetrics().At(0).Metrics().At(0).Gauge().DataPoints().At(0).SetTimestamp(pcommon.Timestamp(1000 + c.idx))
	}
	return nil
}

func VerifC06RouterMetrics() {
	ids := []pipeline.ID{pipeline.NewIDWithName(pipeline.SignalMetrics, "a"), pipeline.NewIDWithName(pipeline.SignalMetrics, "b")}
	cs := []*vc06RCM{{idx: 0, mutates: vChoice("mutates", 2) == 1}, {idx: 1, mutates: vChoice("mutates", 2) == 1}}
	cm := map[pipeline.ID]consumer.Metrics{ids[0]: cs[0], ids[1]: cs[1]}
	router := NewMetricsRouter(cm)
	var sel []pipeline.ID
	var used []*vc06RCM
	switch vChoice("route", 3) {
	case 0:
		sel, used = ids[:1], cs[:1]
	case 1:
		sel, used = ids[1:], cs[1:]
	default:
		sel, used = ids, cs
	}
	next, err := router.Consumer(sel...)
	vAssert(err == nil && next != nil, "router-metrics/consumer-for-known-pipelines")
	td := pmetric.NewMetrics()
	sp := td.ResourceMetrics().AppendEmpty().ScopeMetrics().AppendEmpty().Metrics().AppendEmpty().SetEmptyGauge().DataPoints().AppendEmpty()
	t0 := vNondetUint64("ts")
	sp.SetTimestamp(pcommon.Timestamp(t0))
	inputRO := vChoice("input-read-only", 2) == 1
	if inputRO {
		td.MarkReadOnly()
	}
	vAssert(next.ConsumeMetrics(context.Background(), td) == nil, "router-metrics/consume-ok")
	for _, c := range used {
		vAssert(c.calls == 1, "router-metrics/every-selected-pipeline-invoked-once")
		if c.mutates {
			vAssert(!c.sawRO && !c.panicked, "router-metrics/mutating-pipeline-gets-mutable-private-data")
		} else {
			got := uint64(c.got.ResourceMetrics().At(0).ScopeMetrics().At(0).Metrics().At(0).Gauge().DataPoints().At(0).Timestamp())
			vAssert(got == t0, "router-metrics/non-mutating-pipeline-never-observes-a-change")
		}
	}
	for _, c := range cs {
		sel := false
		for _, u := range used {
			if u == c {
				sel = true
			}
		}
		if !sel {
			vAssert(c.calls == 0, "router-metrics/unselected-pipeline-not-invoked")
		}
	}
	if !next.Capabilities().MutatesData {
		vAssert(uint64(td.ResourceMetrics().At(0).ScopeMetrics().At(0).Metrics().At(0).Gauge().DataPoints().At(0).Timestamp()) == t0, "router-metrics/caller-data-unchanged-when-no-mutation-declared")
	}
	vReach("end")
}
