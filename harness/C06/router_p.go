package PKGNAME

// C06 (connector routers, profiles): same scheme as the traces router unit.

import (
	"context"

	"go.opentelemetry.io/collector/consumer"
	"go.opentelemetry.io/collector/consumer/xconsumer"
	"go.opentelemetry.io/collector/pdata/pcommon"
	"go.opentelemetry.io/collector/pdata/pprofile"
	"go.opentelemetry.io/collector/pipeline"
	"go.opentelemetry.io/collector/pipeline/xpipeline"
)

type vc06RCP struct {
	idx     int
	mutates bool
	calls   int
	got     pprofile.Profiles
	sawRO   bool
	panicked bool
}

func (c *vc06RCP) Capabilities() consumer.Capabilities { return consumer.Capabilities{MutatesData: c.mutates} }
func (c *vc06RCP) ConsumeProfiles(_ context.Context, td pprofile.Profiles) (err error) {
	c.calls++
	c.got = td
	c.sawRO = td.IsReadOnly()
	if c.mutates {
		defer func() {
			if r := recover(); r != nil {
				c.panicked = true
			}
		}()
		td.ResourceProfiles().At(0).ScopeProfiles().At(0).Profiles().At(0).SetTime(pcommon.Timestamp(1000 + c.idx))
	}
	return nil
}

func VerifC06RouterProfiles() {
	ids := []pipeline.ID{pipeline.NewIDWithName(xpipeline.SignalProfiles, "a"), pipeline.NewIDWithName(xpipeline.SignalProfiles, "b")}
	cs := []*vc06RCP{{idx: 0, mutates: vChoice("mutates", 2) == 1}, {idx: 1, mutates: vChoice("mutates", 2) == 1}}
	cm := map[pipeline.ID]xconsumer.Profiles{ids[0]: cs[0], ids[1]: cs[1]}
	router := NewProfilesRouter(cm)
	var sel []pipeline.ID
	var used []*vc06RCP
	switch vChoice("route", 3) {
	case 0:
		sel, used = ids[:1], cs[:1]
	case 1:
		sel, used = ids[1:], cs[1:]
	default:
		sel, used = ids, cs
	}
	next, err := router.Consumer(sel...)
	vAssert(err == nil && next != nil, "router-profiles/consumer-for-known-pipelines")
	td := pprofile.NewProfiles()
	sp := td.ResourceProfiles().AppendEmpty().ScopeProfiles().AppendEmpty().Profiles().AppendEmpty()
	t0 := vNondetUint64("ts")
	sp.SetTime(pcommon.Timestamp(t0))
	inputRO := vChoice("input-read-only", 2) == 1
	if inputRO {
		td.MarkReadOnly()
	}
	vAssert(next.ConsumeProfiles(context.Background(), td) == nil, "router-profiles/consume-ok")
	for _, c := range used {
		vAssert(c.calls == 1, "router-profiles/every-selected-pipeline-invoked-once")
		if c.mutates {
			vAssert(!c.sawRO && !c.panicked, "router-profiles/mutating-pipeline-gets-mutable-private-data")
		} else {
			got := uint64(c.got.ResourceProfiles().At(0).ScopeProfiles().At(0).Profiles().At(0).Time())
			vAssert(got == t0, "router-profiles/non-mutating-pipeline-never-observes-a-change")
		}
	}
	for _, c := range cs {
		sel := false
		for _, u := range used {
			if u == c {
				sel = true
			}
		}
		if !sel {
			vAssert(c.calls == 0, "router-profiles/unselected-pipeline-not-invoked")
		}
	}
	if !next.Capabilities().MutatesData {
		vAssert(uint64(td.ResourceProfiles().At(0).ScopeProfiles().At(0).Profiles().At(0).Time()) == t0, "router-profiles/caller-data-unchanged-when-no-mutation-declared")
	}
	vReach("end")
}
