package PKGNAME

// C07 (copy into a previously used destination makes it equal to the source), element level: the
// generated CopyTo of messages with a one-of value or optional fields, for every combination of
// what the source holds and what the destination held before.  Slices reuse the destination's
// element objects, so the same must hold through NumberDataPointSlice.CopyTo.

import "math"

func vc07SetNumber(dp NumberDataPoint, kind int, bits uint64) {
	switch kind {
	case 1:
		dp.SetIntValue(int64(bits))
	case 2:
		dp.SetDoubleValue(math.Float64frombits(bits))
	}
}

func vc07SameNumber(dest NumberDataPoint, kind int, bits uint64, lbl string) {
	switch kind {
	case 0:
		vAssert(dest.ValueType() == NumberDataPointValueTypeEmpty, lbl+"/source-without-value-leaves-destination-without-value")
	case 1:
		vAssert(dest.ValueType() == NumberDataPointValueTypeInt && uint64(dest.IntValue()) == bits, lbl+"/int-value-copied")
	case 2:
		vAssert(dest.ValueType() == NumberDataPointValueTypeDouble && math.Float64bits(dest.DoubleValue()) == bits, lbl+"/double-value-copied")
	}
}

func VerifC07ElementCopy() {
	switch vChoice("message", 5) {
	case 0: // NumberDataPoint: one-of value
		sk, dk := vChoice("source-value", 3), vChoice("destination-held", 3)
		sb, db := vNondetUint64("source-bits"), vNondetUint64("destination-bits")
		src, dest := NewNumberDataPoint(), NewNumberDataPoint()
		vc07SetNumber(src, sk, sb)
		vc07SetNumber(dest, dk, db)
		src.CopyTo(dest)
		vc07SameNumber(dest, sk, sb, "element-copy/number-data-point")
	case 1: // the same through the slice, which reuses the destination's element objects
		sk, dk := vChoice("source-value", 3), vChoice("destination-held", 3)
		sb, db := vNondetUint64("source-bits"), vNondetUint64("destination-bits")
		src, dest := NewNumberDataPointSlice(), NewNumberDataPointSlice()
		vc07SetNumber(src.AppendEmpty(), sk, sb)
		vc07SetNumber(dest.AppendEmpty(), dk, db)
		if vChoice("destination-longer", 2) == 1 {
			vc07SetNumber(dest.AppendEmpty(), dk, db)
		}
		src.CopyTo(dest)
		vAssert(dest.Len() == 1, "element-copy/number-data-point-slice/length")
		if dest.Len() == 1 {
			vc07SameNumber(dest.At(0), sk, sb, "element-copy/number-data-point-slice")
		}
	case 2: // HistogramDataPoint: optional sum / min / max
		sp, dp := vChoice("source-has", 8), vChoice("destination-had", 8)
		src, dest := NewHistogramDataPoint(), NewHistogramDataPoint()
		vals := []float64{1.5, 2.5, 3.5}
		for i, set := range []func(HistogramDataPoint, float64){HistogramDataPoint.SetSum, HistogramDataPoint.SetMin, HistogramDataPoint.SetMax} {
			if sp&(1<<i) != 0 {
				set(src, vals[i])
			}
			if dp&(1<<i) != 0 {
				set(dest, 100+vals[i])
			}
		}
		src.CopyTo(dest)
		vAssert(dest.HasSum() == src.HasSum() && (!src.HasSum() || dest.Sum() == src.Sum()), "element-copy/histogram-data-point/optional-sum-equals-source")
		vAssert(dest.HasMin() == src.HasMin() && (!src.HasMin() || dest.Min() == src.Min()), "element-copy/histogram-data-point/optional-min-equals-source")
		vAssert(dest.HasMax() == src.HasMax() && (!src.HasMax() || dest.Max() == src.Max()), "element-copy/histogram-data-point/optional-max-equals-source")
	case 3: // ExponentialHistogramDataPoint: optional sum / min / max
		sp, dp := vChoice("source-has", 8), vChoice("destination-had", 8)
		src, dest := NewExponentialHistogramDataPoint(), NewExponentialHistogramDataPoint()
		vals := []float64{1.5, 2.5, 3.5}
		for i, set := range []func(ExponentialHistogramDataPoint, float64){ExponentialHistogramDataPoint.SetSum, ExponentialHistogramDataPoint.SetMin, ExponentialHistogramDataPoint.SetMax} {
			if sp&(1<<i) != 0 {
				set(src, vals[i])
			}
			if dp&(1<<i) != 0 {
				set(dest, 100+vals[i])
			}
		}
		src.CopyTo(dest)
		vAssert(dest.HasSum() == src.HasSum() && (!src.HasSum() || dest.Sum() == src.Sum()), "element-copy/exponential-histogram-data-point/optional-sum-equals-source")
		vAssert(dest.HasMin() == src.HasMin() && (!src.HasMin() || dest.Min() == src.Min()), "element-copy/exponential-histogram-data-point/optional-min-equals-source")
		vAssert(dest.HasMax() == src.HasMax() && (!src.HasMax() || dest.Max() == src.Max()), "element-copy/exponential-histogram-data-point/optional-max-equals-source")
	default: // Metric: one-of data; Exemplar: one-of value
		mk := func(m Metric, k int) {
			switch k {
			case 1:
				m.SetEmptyGauge().DataPoints().AppendEmpty().SetIntValue(7)
			case 2:
				m.SetEmptySum().SetIsMonotonic(true)
			case 3:
				m.SetEmptyHistogram()
			case 4:
				m.SetEmptyExponentialHistogram()
			case 5:
				m.SetEmptySummary()
			}
		}
		sk, dk := vChoice("source-type", 6), vChoice("destination-held", 6)
		src, dest := NewMetric(), NewMetric()
		mk(src, sk)
		mk(dest, dk)
		src.CopyTo(dest)
		vAssert(dest.Type() == src.Type(), "element-copy/metric/type-equals-source")
		es, ed := NewExemplar(), NewExemplar()
		ek, dk2 := vChoice("exemplar-source-value", 3), vChoice("exemplar-destination-held", 3)
		for i, e := range []Exemplar{es, ed} {
			k := ek
			if i == 1 {
				k = dk2
			}
			switch k {
			case 1:
				e.SetIntValue(int64(3 + i))
			case 2:
				e.SetDoubleValue(float64(4 + i))
			}
		}
		es.CopyTo(ed)
		vAssert(ed.ValueType() == es.ValueType(), "element-copy/exemplar/value-type-equals-source")
	}
	vReach("end")
}
