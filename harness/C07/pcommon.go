package PKGNAME

// C07 on the hand-written pcommon containers: Slice (of Value), Map, Value.
// Same scheme as the generated-slice harness: programs of K operations over three values,
// checked after every step against a plain-Go reference model; tags are symbolic int64.

type vc07S struct {
	s    Slice
	m    []int64
	tail string
}

func vc07SCheck(vs []*vc07S, when string) {
	for _, v := range vs {
		vAssert(v.s.Len() == len(v.m), when+"/len")
		n := v.s.Len()
		if n > len(v.m) {
			n = len(v.m)
		}
		for i := 0; i < n; i++ {
			vAssert(v.s.At(i).Type() == ValueTypeInt, when+"/element-type")
			vAssert(v.s.At(i).Int() == v.m[i], when+"/element-value")
		}
	}
}

func vc07Guard(label string, f func()) (ok bool) {
	defer func() {
		if r := recover(); r != nil {
			vAssert(false, label)
			ok = false
		}
	}()
	f()
	return true
}

func VerifC07Slice() {
	K := vParam("K")
	vs := []*vc07S{{s: NewSlice(), tail: "clean"}, {s: NewSlice(), tail: "clean"}, {s: NewSlice(), tail: "clean"}}
	for i := 0; i < 3; i++ {
		t := vNondetInt64("tag")
		vs[0].s.AppendEmpty().SetInt(t)
		vs[0].m = append(vs[0].m, t)
	}
	for i := 0; i < 2; i++ {
		t := vNondetInt64("tag")
		vs[1].s.AppendEmpty().SetInt(t)
		vs[1].m = append(vs[1].m, t)
	}
	for step := 0; step < K; step++ {
		op := vChoice("op", 6)
		x := vs[vChoice("x", 3)]
		switch op {
		case 0:
			t := vNondetInt64("tag")
			if !vc07Guard("append/no-panic/"+x.tail, func() { x.s.AppendEmpty().SetInt(t) }) {
				return
			}
			x.m = append(x.m, t)
			vc07SCheck(vs, "append")
		case 1:
			n := len(x.m) + 1 + vChoice("extra", 2)
			if !vc07Guard("ensurecapacity/no-panic", func() { x.s.EnsureCapacity(n) }) {
				return
			}
			vAssert(cap(*x.s.getOrig()) >= n, "ensurecapacity/capacity")
			vc07SCheck(vs, "ensurecapacity")
		case 2:
			var keep []int64
			i := 0
			if !vc07Guard("removeif/no-panic", func() {
				x.s.RemoveIf(func(Value) bool {
					rm := vNondetBool("remove")
					if !rm {
						keep = append(keep, x.m[i])
					} else {
						x.tail = "stale-tail"
					}
					i++
					return rm
				})
			}) {
				return
			}
			vAssert(i == len(x.m), "removeif/visits-every-element-once")
			x.m = keep
			vc07SCheck(vs, "removeif")
		case 3:
			y := vs[vChoice("y", 3)]
			if x == y {
				vAssume(false)
			}
			if !vc07Guard("moveandappend/no-panic", func() { x.s.MoveAndAppendTo(y.s) }) {
				return
			}
			y.m = append(y.m, x.m...)
			x.m = nil
			vAssert(x.s.Len() == 0, "moveandappend/source-empty")
			vc07SCheck(vs, "moveandappend")
		case 4:
			y := vs[vChoice("y", 3)]
			if x == y {
				vAssume(false)
			}
			lbl := "copyto/dest-" + y.tail
			if !vc07Guard(lbl+"/no-panic", func() { x.s.CopyTo(y.s) }) {
				return
			}
			y.m = append([]int64(nil), x.m...)
			vc07SCheck(vs, lbl)
			for i := 0; i < x.s.Len(); i++ {
				t := vNondetInt64("tag")
				x.s.At(i).SetInt(t)
				x.m[i] = t
			}
			vc07SCheck(vs, lbl+"/independent-after-source-mutation")
			for i := 0; i < y.s.Len(); i++ {
				t := vNondetInt64("tag")
				y.s.At(i).SetInt(t)
				y.m[i] = t
			}
			vc07SCheck(vs, lbl+"/independent-after-dest-mutation")
		case 5:
			if len(x.m) == 0 {
				vAssume(false)
			}
			i := vChoice("i", len(x.m))
			t := vNondetInt64("tag")
			x.s.At(i).SetInt(t)
			x.m[i] = t
			vc07SCheck(vs, "mutate")
		}
	}
	vReach("end")
}

// ---- Map ------------------------------------------------------------------------------------

type vc07M struct {
	m    Map
	keys []string
	vals []int64
}

func (v *vc07M) find(k string) int {
	for i, x := range v.keys {
		if x == k {
			return i
		}
	}
	return -1
}

func vc07MCheck(vs []*vc07M, when string) {
	for _, v := range vs {
		vAssert(v.m.Len() == len(v.keys), when+"/len")
		for i, k := range v.keys {
			got, ok := v.m.Get(k)
			vAssert(ok, when+"/key-present")
			if ok {
				vAssert(got.Type() == ValueTypeInt && got.Int() == v.vals[i], when+"/value")
			}
		}
		// no key outside the model
		n := 0
		v.m.Range(func(k string, _ Value) bool {
			if v.find(k) >= 0 {
				n++
			}
			return true
		})
		vAssert(n == len(v.keys), when+"/no-foreign-or-duplicate-keys")
	}
}

func VerifC07Map() {
	K := vParam("K")
	names := []string{"a", "b", "c", "d"}
	vs := []*vc07M{{m: NewMap()}, {m: NewMap()}, {m: NewMap()}}
	for i := 0; i < 3; i++ {
		t := vNondetInt64("tag")
		vs[0].m.PutInt(names[i], t)
		vs[0].keys = append(vs[0].keys, names[i])
		vs[0].vals = append(vs[0].vals, t)
	}
	for i := 0; i < 2; i++ {
		t := vNondetInt64("tag")
		vs[1].m.PutInt(names[i+1], t)
		vs[1].keys = append(vs[1].keys, names[i+1])
		vs[1].vals = append(vs[1].vals, t)
	}
	for step := 0; step < K; step++ {
		op := vChoice("op", 6)
		x := vs[vChoice("x", 3)]
		switch op {
		case 0: // PutInt (new or existing key)
			k := names[vChoice("key", len(names))]
			t := vNondetInt64("tag")
			if !vc07Guard("put/no-panic", func() { x.m.PutInt(k, t) }) {
				return
			}
			if i := x.find(k); i >= 0 {
				x.vals[i] = t
			} else {
				x.keys = append(x.keys, k)
				x.vals = append(x.vals, t)
			}
			vc07MCheck(vs, "put")
		case 1: // Remove
			k := names[vChoice("key", len(names))]
			var removed bool
			if !vc07Guard("remove/no-panic", func() { removed = x.m.Remove(k) }) {
				return
			}
			i := x.find(k)
			vAssert(removed == (i >= 0), "remove/result")
			if i >= 0 {
				x.keys = append(x.keys[:i:i], x.keys[i+1:]...)
				x.vals = append(x.vals[:i:i], x.vals[i+1:]...)
			}
			vc07MCheck(vs, "remove")
		case 2: // RemoveIf
			rm := map[string]bool{}
			if !vc07Guard("removeif/no-panic", func() {
				x.m.RemoveIf(func(k string, _ Value) bool {
					r := vNondetBool("remove")
					rm[k] = r
					return r
				})
			}) {
				return
			}
			var nk []string
			var nv []int64
			for i, k := range x.keys {
				if !rm[k] {
					nk = append(nk, k)
					nv = append(nv, x.vals[i])
				}
			}
			x.keys, x.vals = nk, nv
			vc07MCheck(vs, "removeif")
		case 3: // MoveTo
			y := vs[vChoice("y", 3)]
			if x == y {
				vAssume(false)
			}
			if !vc07Guard("moveto/no-panic", func() { x.m.MoveTo(y.m) }) {
				return
			}
			y.keys, y.vals = x.keys, x.vals
			x.keys, x.vals = nil, nil
			vAssert(x.m.Len() == 0, "moveto/source-empty")
			vc07MCheck(vs, "moveto")
		case 4: // CopyTo + independence
			y := vs[vChoice("y", 3)]
			if x == y {
				vAssume(false)
			}
			if !vc07Guard("copyto/no-panic", func() { x.m.CopyTo(y.m) }) {
				return
			}
			y.keys = append([]string(nil), x.keys...)
			y.vals = append([]int64(nil), x.vals...)
			vc07MCheck(vs, "copyto")
			for i, k := range x.keys {
				t := vNondetInt64("tag")
				x.m.PutInt(k, t)
				x.vals[i] = t
			}
			vc07MCheck(vs, "copyto/independent-after-source-mutation")
			for i, k := range y.keys {
				t := vNondetInt64("tag")
				v, _ := y.m.Get(k)
				v.SetInt(t)
				y.vals[i] = t
			}
			vc07MCheck(vs, "copyto/independent-after-dest-mutation")
		case 5: // mutate through Get
			if len(x.keys) == 0 {
				vAssume(false)
			}
			i := vChoice("i", len(x.keys))
			t := vNondetInt64("tag")
			v, ok := x.m.Get(x.keys[i])
			vAssert(ok, "get/present")
			if ok {
				v.SetInt(t)
				x.vals[i] = t
			}
			vc07MCheck(vs, "mutate")
		}
	}
	vReach("end")
}

// ---- Value ----------------------------------------------------------------------------------

// VerifC07Value: CopyTo / MoveTo between standalone values of every scalar kind, then overwrite
// either side with an arbitrary new scalar; the other side must keep what it had.
func VerifC07Value() {
	mk := func(kind int, v int64) Value {
		switch kind {
		case 0:
			return NewValueInt(v)
		case 1:
			return NewValueBool(v&1 == 1)
		case 2:
			if v&1 == 1 {
				return NewValueStr("s1")
			}
			return NewValueStr("s0")
		default:
			return NewValueEmpty()
		}
	}
	same := func(x Value, kind int, v int64) bool {
		switch kind {
		case 0:
			return x.Type() == ValueTypeInt && x.Int() == v
		case 1:
			return x.Type() == ValueTypeBool && x.Bool() == (v&1 == 1)
		case 2:
			if v&1 == 1 {
				return x.Type() == ValueTypeStr && x.Str() == "s1"
			}
			return x.Type() == ValueTypeStr && x.Str() == "s0"
		default:
			return x.Type() == ValueTypeEmpty
		}
	}
	set := func(x Value, kind int, v int64) {
		switch kind {
		case 0:
			x.SetInt(v)
		case 1:
			x.SetBool(v&1 == 1)
		case 2:
			if v&1 == 1 {
				x.SetStr("s1")
			} else {
				x.SetStr("s0")
			}
		}
	}
	ks, vsrc := vChoice("src-kind", 4), vNondetInt64("src")
	kd, vdst := vChoice("dst-kind", 4), vNondetInt64("dst")
	src, dst := mk(ks, vsrc), mk(kd, vdst)
	if vChoice("op", 2) == 0 {
		src.CopyTo(dst)
		vAssert(same(dst, ks, vsrc), "value-copyto/dest-equals-source")
		vAssert(same(src, ks, vsrc), "value-copyto/source-unchanged")
		k2, v2 := vChoice("new-kind", 3), vNondetInt64("new")
		if vChoice("side", 2) == 0 {
			set(src, k2, v2)
			vAssert(same(dst, ks, vsrc), "value-copyto/dest-independent-of-source-mutation")
		} else {
			set(dst, k2, v2)
			vAssert(same(src, ks, vsrc), "value-copyto/source-independent-of-dest-mutation")
		}
	} else {
		src.MoveTo(dst)
		vAssert(same(dst, ks, vsrc), "value-moveto/dest-has-content")
		vAssert(src.Type() == ValueTypeEmpty, "value-moveto/source-empty")
		k2, v2 := vChoice("new-kind", 3), vNondetInt64("new")
		set(src, k2, v2)
		vAssert(same(dst, ks, vsrc), "value-moveto/dest-independent-of-source-reuse")
	}
	vReach("end")
}


// VerifC07MapNested: a map holding nested containers (Slice, Map, Bytes) copied into destinations of
// every size class (empty, shorter, same, longer / pre-sized): the copy is equal and fully
// independent — mutating a nested container on either side never shows on the other.
func VerifC07MapNested() {
	a, b := vNondetInt64("a"), vNondetInt64("b")
	switch vChoice("scenario", 3) {
	case 1:
		// copy into a destination that was filtered with Remove (a non-last key, composite values): the copy
		// equals the source and no two of its entries share an object
		src := NewMap()
		src.PutEmptySlice("l0").AppendEmpty().SetInt(a)
		src.PutEmptyMap("o").PutInt("inner", b)
		src.PutEmptySlice("l2").AppendEmpty().SetInt(b)
		dst := NewMap()
		dst.PutEmptySlice("p").AppendEmpty().SetInt(0)
		dst.PutEmptyMap("q")
		dst.PutEmptySlice("r").AppendEmpty().SetInt(0)
		dst.Remove("p") // "r" moves into the first slot
		src.CopyTo(dst)
		get := func(m Map, k string) int64 {
			v, ok := m.Get(k)
			if !ok || v.Type() != ValueTypeSlice || v.Slice().Len() != 1 {
				vAssert(false, "map-nested/removed-then-copied/copy-equals-source")
				return 0
			}
			return v.Slice().At(0).Int()
		}
		vAssert(dst.Len() == 3 && get(dst, "l0") == a && get(dst, "l2") == b, "map-nested/removed-then-copied/copy-equals-source")
		na := vNondetInt64("na")
		if v, ok := dst.Get("l0"); ok && v.Type() == ValueTypeSlice && v.Slice().Len() == 1 {
			v.Slice().At(0).SetInt(na)
		}
		vAssert(get(dst, "l0") == na && get(dst, "l2") == b, "map-nested/removed-then-copied/entries-of-the-copy-are-distinct-objects")
		vAssert(get(src, "l0") == a && get(src, "l2") == b, "map-nested/removed-then-copied/source-independent-of-copy-mutation")
		vReach("end")
		return
	case 2:
		// MoveTo between two distinct maps that belong to one payload (they share its state)
		root := NewMap()
		ma := root.PutEmptyMap("a")
		ma.PutInt("x", a)
		mb := root.PutEmptyMap("b")
		mb.PutInt("y", b)
		ma.MoveTo(mb)
		x, ok := mb.Get("x")
		vAssert(mb.Len() == 1 && ok && x.Int() == a, "map-nested/move-within-one-payload/destination-holds-the-moved-content")
		vAssert(ma.Len() == 0, "map-nested/move-within-one-payload/source-left-empty")
		vReach("end")
		return
	}
	src := NewMap()
	src.PutEmptySlice("list").AppendEmpty().SetInt(a)
	src.PutEmptyMap("obj").PutInt("inner", b)
	src.PutEmptyBytes("raw").FromRaw([]byte{1, 2, 3})
	dst := NewMap()
	switch vChoice("dest", 4) {
	case 1: // shorter
		dst.PutInt("x", 1)
	case 2: // same length, other kinds
		dst.PutInt("x", 1)
		dst.PutStr("y", "s")
		dst.PutBool("z", true)
	case 3: // longer and pre-sized
		dst.EnsureCapacity(8)
		for _, k := range []string{"p", "q", "r", "s", "t"} {
			dst.PutEmptySlice(k).AppendEmpty().SetInt(0)
		}
	}
	src.CopyTo(dst)
	check := func(m Map, wa, wb int64, raw0 byte, lbl string) {
		vAssert(m.Len() == 3, lbl+"/len")
		l, ok := m.Get("list")
		vAssert(ok && l.Type() == ValueTypeSlice && l.Slice().Len() == 1 && l.Slice().At(0).Int() == wa, lbl+"/nested-slice")
		o, ok := m.Get("obj")
		vAssert(ok && o.Type() == ValueTypeMap, lbl+"/nested-map-kind")
		if ok && o.Type() == ValueTypeMap {
			iv, ok2 := o.Map().Get("inner")
			vAssert(ok2 && iv.Int() == wb, lbl+"/nested-map")
		}
		r, ok := m.Get("raw")
		vAssert(ok && r.Type() == ValueTypeBytes && r.Bytes().Len() == 3 && r.Bytes().At(0) == raw0, lbl+"/nested-bytes")
	}
	check(dst, a, b, 1, "map-nested/copy-equals-source")
	check(src, a, b, 1, "map-nested/source-unchanged-by-the-copy")
	// mutate the nested containers of the copy
	na, nb := vNondetInt64("na"), vNondetInt64("nb")
	dl, _ := dst.Get("list")
	dl.Slice().At(0).SetInt(na)
	do, _ := dst.Get("obj")
	do.Map().PutInt("inner", nb)
	dr, _ := dst.Get("raw")
	dr.Bytes().SetAt(0, 9)
	check(src, a, b, 1, "map-nested/source-independent-of-copy-mutation")
	check(dst, na, nb, 9, "map-nested/copy-holds-its-own-mutation")
	// and the other way round
	sl, _ := src.Get("list")
	sl.Slice().AppendEmpty().SetInt(5)
	dl2, _ := dst.Get("list")
	vAssert(dl2.Slice().Len() == 1, "map-nested/copy-independent-of-source-mutation")
	vReach("end")
}
