package PKGNAME

// C07 (read-only): once a payload is marked read-only every mutator on every value reachable from
// it panics without changing anything, while readers keep working.

import (
	"go.opentelemetry.io/collector/pdata/pcommon"
)

type vc07RO struct {
	res, scope, body string
	ts             uint64
	nRL, nSL, nLR  int
	attr           int64
	nAttrs         int
}

func vc07ROSnap(ld Logs) vc07RO {
	var s vc07RO
	s.nRL = ld.ResourceLogs().Len()
	rl := ld.ResourceLogs().At(0)
	if v, ok := rl.Resource().Attributes().Get("res"); ok {
		s.res = v.Str()
	}
	s.nAttrs = rl.Resource().Attributes().Len()
	s.nSL = rl.ScopeLogs().Len()
	sl := rl.ScopeLogs().At(0)
	s.scope = sl.Scope().Name()
	s.nLR = sl.LogRecords().Len()
	lr := sl.LogRecords().At(0)
	s.ts = uint64(lr.Timestamp())
	s.body = lr.Body().Str()
	if v, ok := lr.Attributes().Get("k"); ok {
		s.attr = v.Int()
	}
	return s
}

func vc07MustPanic(label string, f func()) {
	panicked := false
	func() {
		defer func() {
			if r := recover(); r != nil {
				panicked = true
			}
		}()
		f()
	}()
	vAssert(panicked, "read-only/mutator-panics/"+label)
}

func VerifC07ReadOnly() {
	ld := NewLogs()
	rl := ld.ResourceLogs().AppendEmpty()
	rl.Resource().Attributes().PutStr("res", "r0")
	rl.SetSchemaUrl("rs")
	sl := rl.ScopeLogs().AppendEmpty()
	sl.Scope().SetName("s0")
	lr := sl.LogRecords().AppendEmpty()
	ts := vNondetUint64("ts")
	lr.SetTimestamp(pcommon.Timestamp(ts))
	lr.Body().SetStr("body")
	lr.Attributes().PutInt("k", vNondetInt64("attr"))
	lr.Attributes().PutEmptySlice("list").AppendEmpty().SetInt(7) // a slice-kind value inside the payload
	lr.Attributes().PutEmptyMap("obj").PutStr("inner", "x")
	sl.LogRecords().AppendEmpty()

	other := NewLogs()
	other.ResourceLogs().AppendEmpty().ScopeLogs().AppendEmpty().LogRecords().AppendEmpty()

	ld.MarkReadOnly()
	vAssert(ld.IsReadOnly(), "read-only/is-read-only")
	before := vc07ROSnap(ld)

	rls := ld.ResourceLogs()
	sls := rl.ScopeLogs()
	lrs := sl.LogRecords()
	muts := map[string]func(){
		"ResourceLogsSlice.AppendEmpty":     func() { rls.AppendEmpty() },
		"ResourceLogsSlice.EnsureCapacity":  func() { rls.EnsureCapacity(4) },
		"ResourceLogsSlice.RemoveIf":        func() { rls.RemoveIf(func(ResourceLogs) bool { return true }) },
		"ResourceLogsSlice.MoveAndAppendTo": func() { rls.MoveAndAppendTo(other.ResourceLogs()) },
		"ResourceLogsSlice.CopyTo-into":     func() { other.ResourceLogs().CopyTo(rls) },
		"ResourceLogs.SetSchemaUrl":         func() { rl.SetSchemaUrl("x") },
		"ResourceLogs.MoveTo":               func() { rl.MoveTo(other.ResourceLogs().At(0)) },
		"ResourceLogs.CopyTo-into":          func() { other.ResourceLogs().At(0).CopyTo(rl) },
		"Resource.Attributes.PutStr":        func() { rl.Resource().Attributes().PutStr("res", "changed") },
		"Resource.Attributes.PutInt-new":    func() { rl.Resource().Attributes().PutInt("n", 1) },
		"Resource.Attributes.Remove":        func() { rl.Resource().Attributes().Remove("res") },
		"Resource.Attributes.RemoveIf":      func() { rl.Resource().Attributes().RemoveIf(func(string, pcommon.Value) bool { return true }) },
		"Resource.Attributes.Clear":         func() { rl.Resource().Attributes().Clear() },
		"Resource.SetDroppedAttributesCount": func() { rl.Resource().SetDroppedAttributesCount(3) },
		"ScopeLogsSlice.AppendEmpty":        func() { sls.AppendEmpty() },
		"ScopeLogs.SetSchemaUrl":            func() { sl.SetSchemaUrl("x") },
		"Scope.SetName":                     func() { sl.Scope().SetName("changed") },
		"Scope.SetVersion":                  func() { sl.Scope().SetVersion("v") },
		"LogRecordSlice.AppendEmpty":        func() { lrs.AppendEmpty() },
		"LogRecordSlice.RemoveIf":           func() { lrs.RemoveIf(func(LogRecord) bool { return true }) },
		"LogRecordSlice.Sort":               func() { lrs.Sort(func(a, b LogRecord) bool { return a.Timestamp() > b.Timestamp() }) },
		"LogRecord.SetTimestamp":            func() { lr.SetTimestamp(pcommon.Timestamp(ts + 1)) },
		"LogRecord.SetSeverityNumber":       func() { lr.SetSeverityNumber(SeverityNumberError) },
		"LogRecord.SetSeverityText":         func() { lr.SetSeverityText("E") },
		"LogRecord.SetFlags":                func() { lr.SetFlags(1) },
		"LogRecord.SetTraceID":              func() { lr.SetTraceID(pcommon.TraceID([16]byte{1})) },
		"LogRecord.Body.SetStr":             func() { lr.Body().SetStr("changed") },
		"LogRecord.Body.SetInt":             func() { lr.Body().SetInt(1) },
		"LogRecord.Body.SetEmptyMap":        func() { lr.Body().SetEmptyMap() },
		"LogRecord.Attributes.PutInt":       func() { lr.Attributes().PutInt("k", 0) },
		"LogRecord.Attribute.Value.SetInt":  func() { v, _ := lr.Attributes().Get("k"); v.SetInt(0) },
		"LogRecord.MoveTo":                  func() { lr.MoveTo(other.ResourceLogs().At(0).ScopeLogs().At(0).LogRecords().At(0)) },
		// the FromRaw family, with the inputs that take their early-return branches
		"LogRecord.Body.FromRaw-nil":              func() { _ = lr.Body().FromRaw(nil) },
		"LogRecord.Body.FromRaw-string":           func() { _ = lr.Body().FromRaw("changed") },
		"LogRecord.Attributes.FromRaw-empty":      func() { _ = lr.Attributes().FromRaw(map[string]any{}) },
		"LogRecord.Attributes.FromRaw-nil":        func() { _ = lr.Attributes().FromRaw(nil) },
		"LogRecord.Attributes.FromRaw-non-empty":  func() { _ = lr.Attributes().FromRaw(map[string]any{"z": 1}) },
		"LogRecord.Attribute.Slice.FromRaw-empty": func() { v, _ := lr.Attributes().Get("list"); _ = v.Slice().FromRaw(nil) },
		"LogRecord.Attribute.Value.FromRaw-nil":   func() { v, _ := lr.Attributes().Get("k"); _ = v.FromRaw(nil) },
		"LogRecord.Attribute.Map.Clear":           func() { v, _ := lr.Attributes().Get("obj"); v.Map().Clear() },
		"LogRecord.Attribute.Map.EnsureCapacity":  func() { v, _ := lr.Attributes().Get("obj"); v.Map().EnsureCapacity(8) },
		"LogRecord.Attribute.Slice.EnsureCapacity": func() { v, _ := lr.Attributes().Get("list"); v.Slice().EnsureCapacity(8) },
		"LogRecord.Attribute.Slice.AppendEmpty":   func() { v, _ := lr.Attributes().Get("list"); v.Slice().AppendEmpty() },
	}
	names := make([]string, 0, len(muts))
	for n := range muts {
		names = append(names, n)
	}
	// one mutator per path (map order is irrelevant: the choice enumerates all of them)
	sortStrings(names)
	n := names[vChoice("mutator", len(names))]
	vc07MustPanic(n, muts[n])
	after := vc07ROSnap(ld)
	vAssert(after == before, "read-only/nothing-changed-after-refused-mutation")
	// readers keep working, copying OUT of read-only data works and yields mutable data
	cp := NewLogs()
	ld.CopyTo(cp)
	vAssert(!cp.IsReadOnly() && vc07ROSnap(cp) == before, "read-only/copy-out-works-and-is-mutable")
	cl, _ := cp.ResourceLogs().At(0).ScopeLogs().At(0).LogRecords().At(0).Attributes().Get("list")
	vAssert(cl.Type() == pcommon.ValueTypeSlice && cl.Slice().Len() == 1 && cl.Slice().At(0).Int() == 7, "read-only/copy-out-includes-slice-kind-values")
	cl.Slice().At(0).SetInt(8)
	ol, _ := lr.Attributes().Get("list")
	vAssert(ol.Slice().At(0).Int() == 7, "read-only/original-slice-value-independent-of-its-copy")
	cp.ResourceLogs().At(0).ScopeLogs().At(0).LogRecords().At(0).SetTimestamp(pcommon.Timestamp(ts + 5))
	vAssert(vc07ROSnap(ld) == before, "read-only/original-independent-of-its-copy")
	vReach("end")
}

func sortStrings(a []string) {
	for i := 1; i < len(a); i++ {
		for j := i; j > 0 && a[j] < a[j-1]; j-- {
			a[j], a[j-1] = a[j-1], a[j]
		}
	}
}
