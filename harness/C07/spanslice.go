package PKGNAME

// VerifC07SpanSlice: a program of K operations over three SpanSlice values, checked after
// every step against a plain-Go reference model ([]tag per value), plus pairwise distinctness of
// the element objects (aliasing is the bug class).  Tags, keep/remove bits, capacities and the
// program itself are symbolic / exhaustively chosen.

import (
	otlptrace "go.opentelemetry.io/collector/pdata/internal/data/protogen/trace/v1"
	"go.opentelemetry.io/collector/pdata/pcommon"
)

type vc07sSlice struct {
	s    SpanSlice
	m    []uint64 // reference model: tags in order
	tail string   // state of the backing array beyond len: "clean" | "nil-tail" | "stale-tail"
}

func vc07sCheck(vs []*vc07sSlice, when string) {
	seen := map[*[]byte]bool{}
	_ = seen
	type obj = interface{}
	var objs []obj
	for _, v := range vs {
		vAssert(v.s.Len() == len(v.m), when+"/len")
		n := v.s.Len()
		if n > len(v.m) {
			n = len(v.m)
		}
		for i := 0; i < n; i++ {
			vAssert(uint64(v.s.At(i).StartTimestamp()) == v.m[i], when+"/element-tag")
			objs = append(objs, (*v.s.orig)[i])
		}
	}
	for i := range objs {
		for j := i + 1; j < len(objs); j++ {
			vAssert(objs[i] != objs[j], when+"/elements-distinct")
		}
	}
}

func vc07sGuard(label string, f func()) (ok bool) {
	defer func() {
		if r := recover(); r != nil {
			vAssert(false, label)
			ok = false
		}
	}()
	f()
	return true
}

func VerifC07SpanSlice() {
	K := vParam("K")
	vs := []*vc07sSlice{
		{s: NewSpanSlice(), tail: "clean"},
		{s: NewSpanSlice(), tail: "clean"},
		{s: NewSpanSlice(), tail: "clean"},
	}
	// initial content: a has 3 elements, b has 2, c is empty (so short programs reach interesting states)
	for i := 0; i < 3; i++ {
		t := vNondetUint64("tag")
		vs[0].s.AppendEmpty().SetStartTimestamp(pcommon.Timestamp(t))
		vs[0].m = append(vs[0].m, t)
	}
	for i := 0; i < 2; i++ {
		t := vNondetUint64("tag")
		vs[1].s.AppendEmpty().SetStartTimestamp(pcommon.Timestamp(t))
		vs[1].m = append(vs[1].m, t)
	}
	for step := 0; step < K; step++ {
		op := vChoice("op", 7)
		x := vs[vChoice("x", 3)]
		switch op {
		case 0: // AppendEmpty
			t := vNondetUint64("tag")
			if !vc07sGuard("append/no-panic/"+x.tail, func() { x.s.AppendEmpty().SetStartTimestamp(pcommon.Timestamp(t)) }) {
				return
			}
			x.m = append(x.m, t)
			if x.tail == "nil-tail" && cap(*x.s.orig) == len(*x.s.orig) {
				x.tail = "clean"
			}
			vc07sCheck(vs, "append/"+x.tail)
		case 1: // EnsureCapacity
			n := len(x.m) + 1 + vChoice("extra", 2)
			grew := n > cap(*x.s.orig)
			if !vc07sGuard("ensurecapacity/no-panic", func() { x.s.EnsureCapacity(n) }) {
				return
			}
			vAssert(cap(*x.s.orig) >= n, "ensurecapacity/capacity")
			if grew {
				x.tail = "nil-tail"
			}
			vc07sCheck(vs, "ensurecapacity")
		case 2: // RemoveIf with an arbitrary predicate
			var keep []uint64
			i := 0
			removed := false
			if !vc07sGuard("removeif/no-panic/"+x.tail, func() {
				x.s.RemoveIf(func(lr Span) bool {
					rm := vNondetBool("remove")
					if !rm {
						keep = append(keep, x.m[i])
					} else {
						removed = true
					}
					i++
					return rm
				})
			}) {
				return
			}
			vAssert(i == len(x.m), "removeif/visits-every-element-once")
			x.m = keep
			if removed {
				x.tail = "stale-tail"
			}
			vc07sCheck(vs, "removeif")
		case 3: // MoveAndAppendTo
			y := vs[vChoice("y", 3)]
			if x == y {
				vAssume(false)
			}
			if !vc07sGuard("moveandappend/no-panic/"+y.tail, func() { x.s.MoveAndAppendTo(y.s) }) {
				return
			}
			y.m = append(y.m, x.m...)
			x.m = nil
			if y.tail == "nil-tail" || x.tail != "clean" {
				// appended into / adopted a vector whose tail state we no longer track precisely
				if x.tail != "clean" && len(y.m) == 0 {
					y.tail = x.tail
				}
			}
			x.tail = "clean"
			vc07sCheck(vs, "moveandappend")
		case 4: // CopyTo
			y := vs[vChoice("y", 3)]
			if x == y {
				vAssume(false)
			}
			lbl := "copyto/dest-" + y.tail
			if !vc07sGuard(lbl+"/no-panic", func() { x.s.CopyTo(y.s) }) {
				return
			}
			y.m = append([]uint64(nil), x.m...)
			vc07sCheck(vs, lbl)
			// independence: mutate every source element, destination must not change (and vice versa)
			for i := 0; i < x.s.Len(); i++ {
				t := vNondetUint64("tag")
				x.s.At(i).SetStartTimestamp(pcommon.Timestamp(t))
				x.m[i] = t
			}
			vc07sCheck(vs, lbl+"/independent-after-source-mutation")
			for i := 0; i < y.s.Len(); i++ {
				t := vNondetUint64("tag")
				y.s.At(i).SetStartTimestamp(pcommon.Timestamp(t))
				y.m[i] = t
			}
			vc07sCheck(vs, lbl+"/independent-after-dest-mutation")
		case 6: // Sort by tag: a permutation of the same element objects, in order
			if len(x.m) < 2 {
				vAssume(false)
			}
			before := append([]*otlptrace.Span(nil), (*x.s.orig)...)
			if !vc07sGuard("sort/no-panic", func() {
				x.s.Sort(func(a, b Span) bool { return a.StartTimestamp() < b.StartTimestamp() })
			}) {
				return
			}
			vAssert(x.s.Len() == len(before), "sort/length-unchanged")
			if x.s.Len() != len(before) {
				return
			}
			for i := range before {
				n := 0
				for j := 0; j < x.s.Len(); j++ {
					if (*x.s.orig)[j] == before[i] {
						n++
					}
				}
				vAssert(n == 1, "sort/every-element-object-kept-exactly-once")
			}
			for i := 0; i+1 < x.s.Len(); i++ {
				vAssert(uint64(x.s.At(i).StartTimestamp()) <= uint64(x.s.At(i+1).StartTimestamp()), "sort/elements-in-order")
			}
			for i := 0; i < x.s.Len(); i++ {
				x.m[i] = uint64(x.s.At(i).StartTimestamp())
			}
			vc07sCheck(vs, "sort")
		case 5: // mutate one element
			if len(x.m) == 0 {
				vAssume(false)
			}
			i := vChoice("i", len(x.m))
			t := vNondetUint64("tag")
			x.s.At(i).SetStartTimestamp(pcommon.Timestamp(t))
			x.m[i] = t
			vc07sCheck(vs, "mutate")
		}
	}
	vReach("end")
}
