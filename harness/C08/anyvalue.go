package PKGNAME

// C08 (protobuf): common.v1 AnyValue (one-of with seven alternatives, two of them recursive),
// KeyValue and InstrumentationScope: round trip with symbolic contents, size consistency, totality.

import "math"

// vc08Any builds an AnyValue of the chosen alternative with symbolic content; depth bounds nesting.
func vc08Any(tag string, depth int) (AnyValue, func(out *AnyValue, lbl string)) {
	nk := 8
	if depth == 0 {
		nk = 6 // no recursive alternatives at the bottom
	}
	switch vChoice(tag+"-kind", nk) {
	case 0:
		return AnyValue{}, func(out *AnyValue, lbl string) { vAssert(out.Value == nil, lbl+"/empty-stays-empty") }
	case 1:
		s := vNondetString(tag+"-str", 2*vChoice(tag+"-strlen", 2))
		return AnyValue{Value: &AnyValue_StringValue{StringValue: s}}, func(out *AnyValue, lbl string) {
			v, ok := out.Value.(*AnyValue_StringValue)
			vAssert(ok && v.StringValue == s, lbl+"/string-round-trips")
		}
	case 2:
		b := vNondetBool(tag + "-bool")
		return AnyValue{Value: &AnyValue_BoolValue{BoolValue: b}}, func(out *AnyValue, lbl string) {
			v, ok := out.Value.(*AnyValue_BoolValue)
			vAssert(ok && v.BoolValue == b, lbl+"/bool-round-trips")
		}
	case 3:
		i := vNondetInt64(tag + "-int") // full width: negative values take ten bytes
		return AnyValue{Value: &AnyValue_IntValue{IntValue: i}}, func(out *AnyValue, lbl string) {
			v, ok := out.Value.(*AnyValue_IntValue)
			vAssert(ok && v.IntValue == i, lbl+"/int-round-trips")
		}
	case 4:
		bits := vNondetUint64(tag + "-double-bits")
		return AnyValue{Value: &AnyValue_DoubleValue{DoubleValue: math.Float64frombits(bits)}}, func(out *AnyValue, lbl string) {
			v, ok := out.Value.(*AnyValue_DoubleValue)
			vAssert(ok && math.Float64bits(v.DoubleValue) == bits, lbl+"/double-bit-pattern-round-trips")
		}
	case 5:
		n := vChoice(tag+"-byteslen", 3)
		bs := vNondetBytes(tag+"-bytes", n)
		if n == 0 && vChoice(tag+"-empty-bytes-as-pdata-builds-them", 2) == 1 {
			bs = nil // pcommon.NewValueBytes / Value.SetEmptyBytes hold a nil slice
		}
		return AnyValue{Value: &AnyValue_BytesValue{BytesValue: bs}}, func(out *AnyValue, lbl string) {
			v, ok := out.Value.(*AnyValue_BytesValue)
			if n == 0 {
				vAssert(ok, lbl+"/empty-bytes-value-stays-a-bytes-value")
				return
			}
			vAssert(ok && len(v.BytesValue) == n, lbl+"/bytes-length-round-trips")
			if ok && len(v.BytesValue) == n {
				for i := 0; i < n; i++ {
					vAssert(v.BytesValue[i] == bs[i], lbl+"/bytes-round-trip")
				}
			}
		}
	case 6:
		n := vChoice(tag+"-arraylen", vParam("maxLen")+1)
		arr := &ArrayValue{}
		var checks []func(out *AnyValue, lbl string)
		for i := 0; i < n; i++ {
			e, c := vc08Any(tag+"-e", depth-1)
			arr.Values = append(arr.Values, e)
			checks = append(checks, c)
		}
		return AnyValue{Value: &AnyValue_ArrayValue{ArrayValue: arr}}, func(out *AnyValue, lbl string) {
			v, ok := out.Value.(*AnyValue_ArrayValue)
			vAssert(ok && v.ArrayValue != nil && len(v.ArrayValue.Values) == n, lbl+"/array-length-round-trips")
			if ok && v.ArrayValue != nil && len(v.ArrayValue.Values) == n {
				for i := 0; i < n; i++ {
					checks[i](&v.ArrayValue.Values[i], lbl+"/array-element")
				}
			}
		}
	default:
		n := vChoice(tag+"-kvlen", 2)
		kl := &KeyValueList{}
		var checks []func(out *AnyValue, lbl string)
		var keys []string
		for i := 0; i < n; i++ {
			e, c := vc08Any(tag+"-kv", depth-1)
			k := vNondetString(tag+"-key", 1)
			kl.Values = append(kl.Values, KeyValue{Key: k, Value: e})
			checks = append(checks, c)
			keys = append(keys, k)
		}
		return AnyValue{Value: &AnyValue_KvlistValue{KvlistValue: kl}}, func(out *AnyValue, lbl string) {
			v, ok := out.Value.(*AnyValue_KvlistValue)
			vAssert(ok && v.KvlistValue != nil && len(v.KvlistValue.Values) == n, lbl+"/kvlist-length-round-trips")
			if ok && v.KvlistValue != nil && len(v.KvlistValue.Values) == n {
				for i := 0; i < n; i++ {
					vAssert(v.KvlistValue.Values[i].Key == keys[i], lbl+"/kvlist-key-round-trips")
					checks[i](&v.KvlistValue.Values[i].Value, lbl+"/kvlist-value")
				}
			}
		}
	}
}

func VerifC08AnyValueRoundTrip() {
	m, check := vc08Any("v", vParam("depth"))
	b, err := m.Marshal()
	vAssert(err == nil, "anyvalue/marshal-ok")
	vAssert(len(b) == m.Size(), "anyvalue/size-equals-encoded-length")
	var out AnyValue
	vAssert(out.Unmarshal(b) == nil, "anyvalue/decoding-its-own-encoding-succeeds")
	check(&out, "anyvalue")
	vReach("end")
}

func VerifC08KeyValueScopeRoundTrip() {
	v, check := vc08Any("v", 0)
	kv := KeyValue{Key: vNondetString("key", 1), Value: v}
	sc := &InstrumentationScope{Name: vNondetString("name", 2*vChoice("namelen", 2)), Version: vNondetString("version", 1)}
	d := vNondetUint32("dropped")
	if vChoice("wide-dropped", 2) == 0 {
		vAssume(d < 128)
	}
	sc.DroppedAttributesCount = d
	if vChoice("with-attribute", 2) == 1 {
		sc.Attributes = []KeyValue{kv}
	}
	b, err := sc.Marshal()
	vAssert(err == nil, "scope/marshal-ok")
	vAssert(len(b) == sc.Size(), "scope/size-equals-encoded-length")
	var out InstrumentationScope
	vAssert(out.Unmarshal(b) == nil, "scope/decoding-its-own-encoding-succeeds")
	vAssert(out.Name == sc.Name && out.Version == sc.Version && out.DroppedAttributesCount == d, "scope/scalars-round-trip")
	vAssert(len(out.Attributes) == len(sc.Attributes), "scope/attribute-count-round-trips")
	if len(sc.Attributes) == 1 && len(out.Attributes) == 1 {
		vAssert(out.Attributes[0].Key == kv.Key, "scope/attribute-key-round-trips")
		check(&out.Attributes[0].Value, "scope/attribute-value")
	}
	vReach("end")
}

func VerifC08AnyValueTotal() {
	b := vNondetBytes("wire", vParam("N"))
	var m AnyValue
	if m.Unmarshal(b) != nil {
		vReach("rejected")
		return
	}
	vReach("accepted")
	b1, err := m.Marshal()
	vAssert(err == nil && len(b1) == m.Size(), "anyvalue-total/accepted-message-re-encodes-with-consistent-size")
	var m2 AnyValue
	vAssert(m2.Unmarshal(b1) == nil, "anyvalue-total/re-encoding-decodes")
	b2, err := m2.Marshal()
	vAssert(err == nil && len(b2) == len(b1), "anyvalue-total/re-encoding-is-a-fixed-point-length")
	if len(b2) == len(b1) {
		for i := range b1 {
			vAssert(b1[i] == b2[i], "anyvalue-total/re-encoding-is-a-fixed-point")
		}
	}
}
