package PKGNAME

// C08 (protobuf): metrics.v1 HistogramDataPoint (packed fixed64 / double lists, optional sum/min/max)
// and ExponentialHistogramDataPoint (zigzag32 scale and offsets, packed varint bucket counts):
// round trip, size consistency, totality.

import "math"

func VerifC08HistogramDataPointRoundTrip() {
	m := &HistogramDataPoint{}
	m.StartTimeUnixNano = vNondetUint64("start")
	m.TimeUnixNano = vNondetUint64("time")
	m.Count = vNondetUint64("count")
	f := vNondetUint32("flags")
	if vChoice("wide-flags", 2) == 0 {
		vAssume(f < 128)
	}
	m.Flags = f
	nb := vChoice("buckets", 3)
	var counts []uint64
	var bounds []uint64
	for i := 0; i < nb; i++ {
		c := vNondetUint64("bucket_count")
		counts = append(counts, c)
		m.BucketCounts = append(m.BucketCounts, c)
	}
	ne := vChoice("bounds", 3)
	for i := 0; i < ne; i++ {
		b := vNondetUint64("bound_bits")
		bounds = append(bounds, b)
		m.ExplicitBounds = append(m.ExplicitBounds, math.Float64frombits(b))
	}
	opt := vChoice("optional", 4) // which of sum / min / max are present
	sum, min, max := vNondetUint64("sum_bits"), vNondetUint64("min_bits"), vNondetUint64("max_bits")
	if opt >= 1 {
		m.Sum_ = &HistogramDataPoint_Sum{Sum: math.Float64frombits(sum)}
	}
	if opt >= 2 {
		m.Min_ = &HistogramDataPoint_Min{Min: math.Float64frombits(min)}
	}
	if opt >= 3 {
		m.Max_ = &HistogramDataPoint_Max{Max: math.Float64frombits(max)}
	}
	b, err := m.Marshal()
	vAssert(err == nil, "histdp/marshal-ok")
	vAssert(len(b) == m.Size(), "histdp/size-equals-encoded-length")
	var out HistogramDataPoint
	vAssert(out.Unmarshal(b) == nil, "histdp/decoding-its-own-encoding-succeeds")
	vAssert(out.StartTimeUnixNano == m.StartTimeUnixNano && out.TimeUnixNano == m.TimeUnixNano && out.Count == m.Count && out.Flags == m.Flags, "histdp/scalars-round-trip")
	vAssert(len(out.BucketCounts) == nb && len(out.ExplicitBounds) == ne, "histdp/list-lengths-round-trip")
	if len(out.BucketCounts) == nb && len(out.ExplicitBounds) == ne {
		for i := 0; i < nb; i++ {
			vAssert(out.BucketCounts[i] == counts[i], "histdp/bucket-counts-round-trip")
		}
		for i := 0; i < ne; i++ {
			vAssert(math.Float64bits(out.ExplicitBounds[i]) == bounds[i], "histdp/explicit-bounds-bit-patterns-round-trip")
		}
	}
	s, okS := out.Sum_.(*HistogramDataPoint_Sum)
	vAssert((opt >= 1) == okS && (!okS || math.Float64bits(s.Sum) == sum), "histdp/optional-sum-round-trips")
	mn, okMn := out.Min_.(*HistogramDataPoint_Min)
	vAssert((opt >= 2) == okMn && (!okMn || math.Float64bits(mn.Min) == min), "histdp/optional-min-round-trips")
	mx, okMx := out.Max_.(*HistogramDataPoint_Max)
	vAssert((opt >= 3) == okMx && (!okMx || math.Float64bits(mx.Max) == max), "histdp/optional-max-round-trips")
	vReach("end")
}

func VerifC08ExpHistogramDataPointRoundTrip() {
	// One field at a time is symbolic over its full width (so every value of it, zero included, is
	// covered); the others are a concrete background, all zero (absent on the wire) or all non-zero.
	// Every proto3 scalar has a presence branch in Size, Marshal and Unmarshal: making all of them
	// symbolic at once multiplies the paths by 2 per field without exercising more code.
	focus := vChoice("symbolic-field", 10)
	bg := uint64(vChoice("background-nonzero", 2))
	u64 := func(name string, idx int) uint64 {
		if focus == idx {
			return vNondetUint64(name)
		}
		return bg
	}
	i32 := func(name string, idx int) int32 {
		if focus == idx {
			return vNondetInt32(name) // zigzag32 over the full range
		}
		return -int32(bg) * 3
	}
	m := &ExponentialHistogramDataPoint{}
	m.TimeUnixNano = u64("time", 0)
	m.Count = u64("count", 1)
	m.ZeroCount = u64("zero_count", 2)
	sc := i32("scale", 3)
	m.Scale = sc
	off := i32("offset", 4)
	m.Positive.Offset = off
	noff := i32("noffset", 5)
	m.Negative.Offset = noff
	zt := u64("zero_threshold_bits", 6)
	m.ZeroThreshold = math.Float64frombits(zt)
	var pc []uint64
	np := 0
	if focus == 7 { // packed varint bucket counts: one full-width element between two small ones
		np = 1 + vChoice("positive-buckets", 3)
		for i := 0; i < np; i++ {
			c := uint64(i)
			if i == np/2 {
				c = vNondetUint64("pcount")
			}
			pc = append(pc, c)
			m.Positive.BucketCounts = append(m.Positive.BucketCounts, c)
		}
	}
	withSum := focus == 8
	sum := uint64(0)
	if withSum {
		sum = vNondetUint64("sum_bits")
		m.Sum_ = &ExponentialHistogramDataPoint_Sum{Sum: math.Float64frombits(sum)}
	}
	f := uint32(bg)
	if focus == 9 {
		f = vNondetUint32("flags")
	}
	m.Flags = f
	b, err := m.Marshal()
	vAssert(err == nil, "exphistdp/marshal-ok")
	vAssert(len(b) == m.Size(), "exphistdp/size-equals-encoded-length")
	var out ExponentialHistogramDataPoint
	vAssert(out.Unmarshal(b) == nil, "exphistdp/decoding-its-own-encoding-succeeds")
	vAssert(out.TimeUnixNano == m.TimeUnixNano && out.Count == m.Count && out.ZeroCount == m.ZeroCount && out.Flags == f, "exphistdp/fixed-scalars-and-flags-round-trip")
	vAssert(out.Scale == sc, "exphistdp/zigzag-scale-round-trips")
	vAssert(out.Positive.Offset == off && out.Negative.Offset == noff, "exphistdp/zigzag-offsets-round-trip")
	vAssert(len(out.Positive.BucketCounts) == np && len(out.Negative.BucketCounts) == 0, "exphistdp/bucket-list-lengths-round-trip")
	if len(out.Positive.BucketCounts) == np {
		for i := 0; i < np; i++ {
			vAssert(out.Positive.BucketCounts[i] == pc[i], "exphistdp/packed-varint-bucket-counts-round-trip")
		}
	}
	// a plain proto3 double: a zero of either sign is the default and is not emitted, so -0 comes back
	// as +0 (equal as floats); every other bit pattern, NaNs included, must come back unchanged
	vAssert(math.Float64bits(out.ZeroThreshold) == zt || (zt<<1 == 0 && math.Float64bits(out.ZeroThreshold) == 0), "exphistdp/zero-threshold-round-trips")
	s, okS := out.Sum_.(*ExponentialHistogramDataPoint_Sum)
	vAssert(withSum == okS && (!okS || math.Float64bits(s.Sum) == sum), "exphistdp/optional-sum-round-trips")
	vReach("end")
}

func VerifC08ExpHistogramDataPointTotal() {
	b := vNondetBytes("wire", vParam("N"))
	var m ExponentialHistogramDataPoint
	if m.Unmarshal(b) != nil {
		vReach("rejected")
		return
	}
	vReach("accepted")
	b1, err := m.Marshal()
	vAssert(err == nil && len(b1) == m.Size(), "exphistdp-total/accepted-message-re-encodes-with-consistent-size")
	var m2 ExponentialHistogramDataPoint
	vAssert(m2.Unmarshal(b1) == nil, "exphistdp-total/re-encoding-decodes")
	b2, err := m2.Marshal()
	vAssert(err == nil && len(b2) == len(b1), "exphistdp-total/re-encoding-is-a-fixed-point-length")
	if len(b2) == len(b1) {
		for i := range b1 {
			vAssert(b1[i] == b2[i], "exphistdp-total/re-encoding-is-a-fixed-point")
		}
	}
}
