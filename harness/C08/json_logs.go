package PKGNAME

// C08 (JSON decoder, logs): the hand-written jsoniter readers of plog decode the canonical proto3-JSON
// text of a log payload — as jsonpb writes it: camelCase names, 64-bit integers as strings, enums as
// numbers, bytes as standard base64, ids as hex — to the payload it stands for, and the alternative
// spellings the property names (64-bit integers as numbers, enums by name) to the same payload.
// "Same payload" is decided on the protobuf encoding: encode(decode(json)) == encode(original).
// Symbolic: the bytes of a bytes-valued attribute (through real base64) and one byte of the trace id
// (through real hex); integers and enums take boundary values by choice.
//
// The JSON *marshaler* (gogo jsonpb, reflection over struct types) is outside: the text is written by
// the harness following the proto3 JSON mapping.

import (
	"encoding/base64"
	"encoding/hex"

	"go.opentelemetry.io/collector/pdata/pcommon"
)

func VerifC08JSONLogs() {
	// 64-bit integer: written as a string (canonical) or as a number
	tsVals := []uint64{0, 1, 1700000000000000000, 1<<63 - 1, 1<<64 - 1}
	tsTexts := []string{"0", "1", "1700000000000000000", "9223372036854775807", "18446744073709551615"}
	ti := vChoice("timestamp", len(tsVals))
	tsText := `"` + tsTexts[ti] + `"`
	if tsVals[ti] <= 1<<53 && vChoice("int64-written-as-number", 2) == 1 {
		tsText = tsTexts[ti]
	}
	// signed 64-bit attribute value
	ivVals := []int64{0, -1, 1<<63 - 1, -1 << 63}
	ivTexts := []string{"0", "-1", "9223372036854775807", "-9223372036854775808"}
	ii := vChoice("int-value", len(ivVals))
	ivText := `"` + ivTexts[ii] + `"`
	if (ivVals[ii] == 0 || ivVals[ii] == -1) && vChoice("int-value-written-as-number", 2) == 1 {
		ivText = ivTexts[ii]
	}
	// enum: number (canonical here) or name
	sevText := "9"
	if vChoice("enum-written-by-name", 2) == 1 {
		sevText = `"SEVERITY_NUMBER_INFO"`
	}
	// bytes: symbolic, through the real base64 encoder (standard alphabet, padded)
	nb := vParam("bytes")
	raw := vNondetBytes("bytes-value", nb)
	b64 := base64.StdEncoding.EncodeToString(raw)
	// trace id: one symbolic byte, through the real hex encoder
	var tid [16]byte
	for i := range tid {
		tid[i] = byte(i + 1)
	}
	if vParam("idByte") >= 0 {
		tid[vParam("idByte")] = vNondetByte("trace-id-byte")
	}
	tidText := hex.EncodeToString(tid[:])
	sid := [8]byte{1, 2, 3, 4, 5, 6, 7, 8}

	text := `{"resourceLogs":[{"resource":{"attributes":[{"key":"b","value":{"bytesValue":"` + b64 + `"}},{"key":"i","value":{"intValue":` + ivText + `}},` +
		`{"key":"a","value":{"arrayValue":{"values":[{"stringValue":"x"},{},{"boolValue":true},{"kvlistValue":{"values":[{"key":"k","value":{"doubleValue":0.5}},{"key":"e","value":{}}]}}]}}}]},` +
		`"scopeLogs":[{"scope":{"name":"s"},"logRecords":[{"timeUnixNano":` + tsText + `,"severityNumber":` + sevText + `,"body":{"stringValue":"x"},` +
		`"traceId":"` + tidText + `","spanId":"` + hex.EncodeToString(sid[:]) + `","flags":1}],"schemaUrl":"u"}]}]}`

	got, err := (&JSONUnmarshaler{}).UnmarshalLogs([]byte(text))
	vAssert(err == nil, "json-logs/canonical-text-decodes")
	if err != nil {
		return
	}
	want := NewLogs()
	rl := want.ResourceLogs().AppendEmpty()
	rl.Resource().Attributes().PutEmptyBytes("b").FromRaw(raw)
	rl.Resource().Attributes().PutInt("i", ivVals[ii])
	arr := rl.Resource().Attributes().PutEmptySlice("a")
	arr.AppendEmpty().SetStr("x")
	arr.AppendEmpty() // an element without a value after one with a value
	arr.AppendEmpty().SetBool(true)
	kv := arr.AppendEmpty().SetEmptyMap()
	kv.PutDouble("k", 0.5)
	kv.PutEmpty("e")
	sl := rl.ScopeLogs().AppendEmpty()
	sl.Scope().SetName("s")
	sl.SetSchemaUrl("u")
	lr := sl.LogRecords().AppendEmpty()
	lr.SetTimestamp(pcommon.Timestamp(tsVals[ti]))
	lr.SetSeverityNumber(SeverityNumberInfo)
	lr.Body().SetStr("x")
	lr.SetTraceID(pcommon.TraceID(tid))
	lr.SetSpanID(pcommon.SpanID(sid))
	lr.SetFlags(1)

	pm := &ProtoMarshaler{}
	wb, err1 := pm.MarshalLogs(want)
	gb, err2 := pm.MarshalLogs(got)
	vAssert(err1 == nil && err2 == nil, "json-logs/protobuf-encodes")
	vAssert(len(wb) == len(gb), "json-logs/decoded-json-encodes-to-the-same-protobuf-length")
	if len(wb) == len(gb) {
		same := true
		for i := range wb {
			same = same && wb[i] == gb[i]
		}
		vAssert(same, "json-logs/decoded-json-encodes-to-the-same-protobuf-bytes")
	}
	// spot checks on the values themselves
	glr := got.ResourceLogs().At(0).ScopeLogs().At(0).LogRecords().At(0)
	vAssert(uint64(glr.Timestamp()) == tsVals[ti], "json-logs/int64-as-string-or-number-decodes-to-the-same-value")
	vAssert(glr.SeverityNumber() == SeverityNumberInfo, "json-logs/enum-as-number-or-name-decodes-to-the-same-value")
	bv, ok := got.ResourceLogs().At(0).Resource().Attributes().Get("b")
	vAssert(ok && bv.Bytes().Len() == nb, "json-logs/bytes-value-has-its-length")
	vReach("end")
}

// VerifC08JSONLogsTotal: arbitrary bytes offered to the JSON decoder, at the top level and inside an
// attribute value object, never panic or hang (unwinding assertions bound every loop).
func VerifC08JSONLogsTotal() {
	n := vParam("N")
	junk := vNondetBytes("json-bytes", n)
	var text []byte
	switch vChoice("position", 3) {
	case 0:
		text = junk
	case 1:
		text = append([]byte(`{"resourceLogs":[{"resource":{"attributes":[{"key":"k","value":{`), junk...)
	case 2:
		text = append(append([]byte(`{"resourceLogs":[{"scopeLogs":[{"logRecords":[{"timeUnixNano":`), junk...), []byte(`}]}]}]}`)...)
	}
	ld, err := (&JSONUnmarshaler{}).UnmarshalLogs(text)
	if err == nil {
		vReach("accepted")
		_, merr := (&ProtoMarshaler{}).MarshalLogs(ld)
		vAssert(merr == nil, "json-logs-total/whatever-decodes-can-be-encoded")
	} else {
		vReach("rejected")
	}
	vReach("end")
}
