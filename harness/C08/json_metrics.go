package PKGNAME

// C08 (JSON decoder, metrics): every double-valued field of a metric payload — data point value,
// exemplar value, histogram sum / min / max, summary sum and quantile value — written as jsonpb writes
// it: a JSON number, or the strings "NaN", "Infinity", "-Infinity" for the non-finite values — decodes
// to that double; 64-bit integer values written as strings or numbers and the aggregation temporality
// written as a number or by name decode to the same payload.  "Same payload" is decided on the
// protobuf encoding: encode(decode(json)) == encode(original built through the pdata API).

import (
	"math"

	"go.opentelemetry.io/collector/pdata/pcommon"
)

func VerifC08JSONMetrics() {
	dTexts := []string{"1.5", "0", "-2.25e10", `"NaN"`, `"Infinity"`, `"-Infinity"`}
	dVals := []float64{1.5, 0, -2.25e10, math.NaN(), math.Inf(1), math.Inf(-1)}
	di := vChoice("double-value", len(dVals))
	d, dt := dVals[di], dTexts[di]
	iTexts := []string{`"7"`, "7", `"-9223372036854775808"`, `"9223372036854775807"`}
	iVals := []int64{7, 7, math.MinInt64, math.MaxInt64}
	ii := vChoice("int-value", len(iVals))
	tempText := "2"
	if vChoice("enum-written-by-name", 2) == 1 {
		tempText = `"AGGREGATION_TEMPORALITY_CUMULATIVE"`
	}
	var text string
	want := NewMetrics()
	sm := want.ResourceMetrics().AppendEmpty().ScopeMetrics().AppendEmpty()
	m := sm.Metrics().AppendEmpty()
	m.SetName("m")
	switch vChoice("where", 5) {
	case 0: // gauge point value (double) with an exemplar (double)
		text = `{"name":"m","gauge":{"dataPoints":[{"timeUnixNano":"5","asDouble":` + dt + `,"exemplars":[{"timeUnixNano":"6","asDouble":` + dt + `}]}]}}`
		dp := m.SetEmptyGauge().DataPoints().AppendEmpty()
		dp.SetTimestamp(5)
		dp.SetDoubleValue(d)
		ex := dp.Exemplars().AppendEmpty()
		ex.SetTimestamp(6)
		ex.SetDoubleValue(d)
	case 1: // sum point value (int) with an exemplar (int), temporality
		text = `{"name":"m","sum":{"aggregationTemporality":` + tempText + `,"isMonotonic":true,"dataPoints":[{"asInt":` + iTexts[ii] + `,"exemplars":[{"asInt":` + iTexts[ii] + `}]}]}}`
		s := m.SetEmptySum()
		s.SetAggregationTemporality(AggregationTemporalityCumulative)
		s.SetIsMonotonic(true)
		dp := s.DataPoints().AppendEmpty()
		dp.SetIntValue(iVals[ii])
		dp.Exemplars().AppendEmpty().SetIntValue(iVals[ii])
	case 2: // histogram sum / min / max
		text = `{"name":"m","histogram":{"aggregationTemporality":` + tempText + `,"dataPoints":[{"count":"3","sum":` + dt + `,"min":` + dt + `,"max":` + dt + `,"bucketCounts":["1","2"],"explicitBounds":[` + dt + `]}]}}`
		h := m.SetEmptyHistogram()
		h.SetAggregationTemporality(AggregationTemporalityCumulative)
		dp := h.DataPoints().AppendEmpty()
		dp.SetCount(3)
		dp.SetSum(d)
		dp.SetMin(d)
		dp.SetMax(d)
		dp.BucketCounts().FromRaw([]uint64{1, 2})
		dp.ExplicitBounds().FromRaw([]float64{d})
	case 3: // exponential histogram sum / zero threshold
		text = `{"name":"m","exponentialHistogram":{"aggregationTemporality":` + tempText + `,"dataPoints":[{"count":"3","sum":` + dt + `,"scale":-2,"zeroCount":"1","positive":{"offset":-5,"bucketCounts":["2"]}}]}}`
		h := m.SetEmptyExponentialHistogram()
		h.SetAggregationTemporality(AggregationTemporalityCumulative)
		dp := h.DataPoints().AppendEmpty()
		dp.SetCount(3)
		dp.SetSum(d)
		dp.SetScale(-2)
		dp.SetZeroCount(1)
		dp.Positive().SetOffset(-5)
		dp.Positive().BucketCounts().FromRaw([]uint64{2})
	case 4: // summary sum, quantile and value
		text = `{"name":"m","summary":{"dataPoints":[{"count":"3","sum":` + dt + `,"quantileValues":[{"quantile":0.5,"value":` + dt + `}]}]}}`
		dp := m.SetEmptySummary().DataPoints().AppendEmpty()
		dp.SetCount(3)
		dp.SetSum(d)
		q := dp.QuantileValues().AppendEmpty()
		q.SetQuantile(0.5)
		q.SetValue(d)
	}
	_ = pcommon.Timestamp(0)
	text = `{"resourceMetrics":[{"scopeMetrics":[{"metrics":[` + text + `]}]}]}`
	got, err := (&JSONUnmarshaler{}).UnmarshalMetrics([]byte(text))
	vAssert(err == nil, "json-metrics/canonical-text-decodes")
	if err != nil {
		return
	}
	pm := &ProtoMarshaler{}
	wb, err1 := pm.MarshalMetrics(want)
	gb, err2 := pm.MarshalMetrics(got)
	vAssert(err1 == nil && err2 == nil, "json-metrics/protobuf-encodes")
	same := len(wb) == len(gb)
	if same {
		for i := range wb {
			same = same && wb[i] == gb[i]
		}
	}
	vAssert(same, "json-metrics/decoded-json-encodes-to-the-same-protobuf-bytes")
	vReach("end")
}
