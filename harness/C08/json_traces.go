package PKGNAME

// C08 (JSON decoder, traces): canonical proto3-JSON text of a span — ids as hex (one symbolic byte of the
// span id through the real hex encoder), 64-bit times as strings or numbers, kind and status code as
// numbers or names, events, links, dropped counts, trace state, flags — decodes to the payload it stands
// for: encode(decode(json)) as protobuf equals encode(original built through the pdata API).

import (
	"encoding/hex"

	"go.opentelemetry.io/collector/pdata/pcommon"
)

func VerifC08JSONTraces() {
	tsVals := []uint64{0, 1, 1700000000000000000, 1<<64 - 1}
	tsTexts := []string{"0", "1", "1700000000000000000", "18446744073709551615"}
	ti := vChoice("start-time", len(tsVals))
	startText := `"` + tsTexts[ti] + `"`
	if tsVals[ti] <= 1<<53 && vChoice("int64-written-as-number", 2) == 1 {
		startText = tsTexts[ti]
	}
	kindText, codeText := "2", "2"
	if vChoice("enums-written-by-name", 2) == 1 {
		kindText, codeText = `"SPAN_KIND_SERVER"`, `"STATUS_CODE_ERROR"`
	}
	var tid [16]byte
	for i := range tid {
		tid[i] = byte(0xa0 + i)
	}
	sid := [8]byte{1, 2, 3, 4, 5, 6, 7, 8}
	sid[vParam("idByte")] = vNondetByte("span-id-byte")
	psid := [8]byte{9, 9, 9, 9, 9, 9, 9, 9}
	dropped := vNondetUint32("dropped-attributes")
	vAssume(dropped < 10) // one decimal digit in the text
	droppedText := string([]byte{'0' + byte(dropped)})

	text := `{"resourceSpans":[{"resource":{"attributes":[{"key":"r","value":{"stringValue":"v"}}]},"schemaUrl":"ru","scopeSpans":[{"scope":{"name":"s","version":"1"},"schemaUrl":"su","spans":[{` +
		`"traceId":"` + hex.EncodeToString(tid[:]) + `","spanId":"` + hex.EncodeToString(sid[:]) + `","parentSpanId":"` + hex.EncodeToString(psid[:]) + `","traceState":"k=v","flags":257,` +
		`"name":"op","kind":` + kindText + `,"startTimeUnixNano":` + startText + `,"endTimeUnixNano":"1700000000000000001",` +
		`"attributes":[{"key":"a","value":{"boolValue":true}}],"droppedAttributesCount":` + droppedText + `,` +
		`"events":[{"timeUnixNano":"7","name":"ev","attributes":[{"key":"e","value":{"doubleValue":1.5}}],"droppedAttributesCount":1}],"droppedEventsCount":2,` +
		`"links":[{"traceId":"` + hex.EncodeToString(tid[:]) + `","spanId":"` + hex.EncodeToString(psid[:]) + `","traceState":"l=1","attributes":[{"key":"l","value":{"intValue":"5"}}],"droppedAttributesCount":3,"flags":1}],"droppedLinksCount":4,` +
		`"status":{"message":"boom","code":` + codeText + `}}]}]}]}`

	got, err := (&JSONUnmarshaler{}).UnmarshalTraces([]byte(text))
	vAssert(err == nil, "json-traces/canonical-text-decodes")
	if err != nil {
		return
	}
	want := NewTraces()
	rs := want.ResourceSpans().AppendEmpty()
	rs.Resource().Attributes().PutStr("r", "v")
	rs.SetSchemaUrl("ru")
	ss := rs.ScopeSpans().AppendEmpty()
	ss.Scope().SetName("s")
	ss.Scope().SetVersion("1")
	ss.SetSchemaUrl("su")
	sp := ss.Spans().AppendEmpty()
	sp.SetTraceID(pcommon.TraceID(tid))
	sp.SetSpanID(pcommon.SpanID(sid))
	sp.SetParentSpanID(pcommon.SpanID(psid))
	sp.TraceState().FromRaw("k=v")
	sp.SetFlags(257)
	sp.SetName("op")
	sp.SetKind(SpanKindServer)
	sp.SetStartTimestamp(pcommon.Timestamp(tsVals[ti]))
	sp.SetEndTimestamp(1700000000000000001)
	sp.Attributes().PutBool("a", true)
	sp.SetDroppedAttributesCount(dropped)
	ev := sp.Events().AppendEmpty()
	ev.SetTimestamp(7)
	ev.SetName("ev")
	ev.Attributes().PutDouble("e", 1.5)
	ev.SetDroppedAttributesCount(1)
	sp.SetDroppedEventsCount(2)
	ln := sp.Links().AppendEmpty()
	ln.SetTraceID(pcommon.TraceID(tid))
	ln.SetSpanID(pcommon.SpanID(psid))
	ln.TraceState().FromRaw("l=1")
	ln.Attributes().PutInt("l", 5)
	ln.SetDroppedAttributesCount(3)
	ln.SetFlags(1)
	sp.SetDroppedLinksCount(4)
	sp.Status().SetMessage("boom")
	sp.Status().SetCode(StatusCodeError)

	pm := &ProtoMarshaler{}
	wb, err1 := pm.MarshalTraces(want)
	gb, err2 := pm.MarshalTraces(got)
	vAssert(err1 == nil && err2 == nil, "json-traces/protobuf-encodes")
	same := len(wb) == len(gb)
	if same {
		for i := range wb {
			same = same && wb[i] == gb[i]
		}
	}
	vAssert(same, "json-traces/decoded-json-encodes-to-the-same-protobuf-bytes")
	vReach("end")
}
