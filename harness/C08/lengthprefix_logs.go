package PKGNAME

// C08 (protobuf, totality at large declared lengths): a length-delimited field head — concrete tag
// byte (field f, wire type 2) followed by a canonical length varint of two to ten arbitrary bytes
// (declared length >= 128, far beyond the buffer) and arbitrary trailing bytes.  Whatever the declared length — including values near 2^63 that make
// "index + length" wrap — the decoder must reject the input with an error; it must never panic
// (slice bounds) or loop.  Small lengths are the N-byte totality units' business.

func vc08LengthHead(n int) []byte {
	f := 1 + vChoice("field", 15)
	b := vNondetBytes("wire", n)
	b[0] = byte(f<<3 | 2)
	// a canonical varint of k = 2..10 bytes: continuation bits on all but the last byte, which is not
	// zero, so the declared length is at least 128 (or overflows 64 bits, or is negative as an int)
	k := 2 + vChoice("length-bytes", 9)
	for i := 1; i < k; i++ {
		vAssume(b[i] >= 0x80)
	}
	vAssume(b[k] < 0x80 && b[k] != 0)
	if k == 10 {
		vAssume(b[k] == 1) // only bit 63 fits in the tenth byte; decoders ignore the bits above it
	}
	return b
}

func VerifC08LogsLengthPrefix() {
	b := vc08LengthHead(vParam("N"))
	var err error
	switch vChoice("message", 4) {
	case 0:
		var m LogRecord
		err = m.Unmarshal(b)
	case 1:
		var m ScopeLogs
		err = m.Unmarshal(b)
	case 2:
		var m ResourceLogs
		err = m.Unmarshal(b)
	default:
		var m LogsData
		err = m.Unmarshal(b)
	}
	vAssert(err != nil, "length-prefix/declared-length-beyond-the-buffer-is-rejected")
	vReach("rejected")
}
