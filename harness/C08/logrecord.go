package PKGNAME

// C08 (protobuf): generated Marshal / Size / Unmarshal of logs.v1.LogRecord.
//  - round trip with symbolic field values (one field at a time over its full width, the others
//    small so that the buffer length stays determined), ids with all 16/8 bytes symbolic;
//  - totality: N arbitrary bytes never make Unmarshal panic or loop, and what it accepts re-encodes
//    to a fixed point.

import (
	data "go.opentelemetry.io/collector/pdata/internal/data"
)

func vc08Small(name string, wide bool) uint64 {
	v := vNondetUint64(name)
	if !wide {
		vAssume(v < 128)
	}
	return v
}

func VerifC08LogRecordRoundTrip() {
	which := vChoice("wide-field", 5)
	m := &LogRecord{}
	m.TimeUnixNano = vNondetUint64("time")              // fixed64: full width always
	m.ObservedTimeUnixNano = vNondetUint64("observed")   // fixed64
	m.Flags = vNondetUint32("flags")                     // fixed32
	m.SeverityNumber = SeverityNumber(int32(uint32(vc08Small("severity", which == 1))))
	m.DroppedAttributesCount = uint32(vc08Small("dropped", which == 2))
	if n := 2 * vChoice("text-len", 2); n > 0 {
		m.SeverityText = vNondetString("text", n)
	}
	var tid [16]byte
	var sid [8]byte
	if which == 3 {
		copy(tid[:], vNondetBytes("trace_id", 16))
	}
	if which == 4 {
		copy(sid[:], vNondetBytes("span_id", 8))
	}
	m.TraceId = data.TraceID(tid)
	m.SpanId = data.SpanID(sid)

	b, err := m.Marshal()
	vAssert(err == nil, "logrecord/marshal-ok")
	vAssert(len(b) == m.Size(), "logrecord/size-equals-encoded-length")
	var out LogRecord
	err = out.Unmarshal(b)
	vAssert(err == nil, "logrecord/decoding-its-own-encoding-succeeds")
	vAssert(out.TimeUnixNano == m.TimeUnixNano && out.ObservedTimeUnixNano == m.ObservedTimeUnixNano, "logrecord/timestamps-round-trip")
	vAssert(out.Flags == m.Flags, "logrecord/flags-round-trip")
	vAssert(out.SeverityNumber == m.SeverityNumber, "logrecord/severity-number-round-trips")
	vAssert(out.DroppedAttributesCount == m.DroppedAttributesCount, "logrecord/dropped-count-round-trips")
	vAssert(out.SeverityText == m.SeverityText, "logrecord/severity-text-round-trips")
	vAssert(out.TraceId == m.TraceId, "logrecord/trace-id-round-trips")
	vAssert(out.SpanId == m.SpanId, "logrecord/span-id-round-trips")
	vReach("end")
}

func VerifC08LogRecordTotal() {
	N := vParam("N")
	b := vNondetBytes("wire", N)
	var m LogRecord
	err := m.Unmarshal(b) // a run-time panic or a loop that does not end is reported by the engine
	if err != nil {
		vReach("rejected")
		return
	}
	vReach("accepted")
	b1, err := m.Marshal()
	vAssert(err == nil, "total/accepted-message-re-encodes")
	vAssert(len(b1) == m.Size(), "total/size-equals-encoded-length")
	var m2 LogRecord
	vAssert(m2.Unmarshal(b1) == nil, "total/re-encoding-decodes")
	b2, err := m2.Marshal()
	vAssert(err == nil && len(b2) == len(b1), "total/re-encoding-is-a-fixed-point-length")
	if len(b2) == len(b1) {
		for i := range b1 {
			vAssert(b1[i] == b2[i], "total/re-encoding-is-a-fixed-point")
		}
	}
}
