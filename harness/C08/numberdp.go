package PKGNAME

// C08 (protobuf): metrics.v1.NumberDataPoint with its one-of value (double bit pattern or int),
// round trip for every 64-bit pattern (NaN / Inf patterns included) and totality.

import "math"

func VerifC08NumberDataPointRoundTrip() {
	m := &NumberDataPoint{}
	m.StartTimeUnixNano = vNondetUint64("start")
	m.TimeUnixNano = vNondetUint64("time")
	f := vNondetUint32("flags")
	if vChoice("wide-flags", 2) == 0 {
		vAssume(f < 128)
	}
	m.Flags = f
	bits := vNondetUint64("value_bits")
	kind := vChoice("value", 3)
	switch kind {
	case 0:
		m.Value = &NumberDataPoint_AsInt{AsInt: int64(bits)}
	case 1:
		m.Value = &NumberDataPoint_AsDouble{AsDouble: math.Float64frombits(bits)}
	}
	b, err := m.Marshal()
	vAssert(err == nil, "numberdp/marshal-ok")
	vAssert(len(b) == m.Size(), "numberdp/size-equals-encoded-length")
	var out NumberDataPoint
	vAssert(out.Unmarshal(b) == nil, "numberdp/decoding-its-own-encoding-succeeds")
	vAssert(out.StartTimeUnixNano == m.StartTimeUnixNano && out.TimeUnixNano == m.TimeUnixNano && out.Flags == m.Flags, "numberdp/scalars-round-trip")
	switch kind {
	case 0:
		v, ok := out.Value.(*NumberDataPoint_AsInt)
		vAssert(ok && uint64(v.AsInt) == bits, "numberdp/int-value-round-trips")
	case 1:
		v, ok := out.Value.(*NumberDataPoint_AsDouble)
		vAssert(ok && math.Float64bits(v.AsDouble) == bits, "numberdp/double-bit-pattern-round-trips")
	default:
		vAssert(out.Value == nil, "numberdp/absent-value-stays-absent")
	}
	vReach("end")
}

func VerifC08NumberDataPointTotal() {
	b := vNondetBytes("wire", vParam("N"))
	var m NumberDataPoint
	if m.Unmarshal(b) != nil {
		vReach("rejected")
		return
	}
	vReach("accepted")
	b1, err := m.Marshal()
	vAssert(err == nil && len(b1) == m.Size(), "numberdp-total/accepted-message-re-encodes-with-consistent-size")
	var m2 NumberDataPoint
	vAssert(m2.Unmarshal(b1) == nil, "numberdp-total/re-encoding-decodes")
}
