package PKGNAME

// C08 (protobuf): trace.v1.Span with a nested event and status: round trip and totality.

import (
	data "go.opentelemetry.io/collector/pdata/internal/data"
)

func VerifC08SpanRoundTrip() {
	which := vChoice("wide-field", 2+2*vParam("events"))
	small := func(name string, wide bool) uint64 {
		v := vNondetUint64(name)
		if !wide {
			vAssume(v < 128)
		}
		return v
	}
	m := &Span{}
	m.StartTimeUnixNano = vNondetUint64("start")
	m.EndTimeUnixNano = vNondetUint64("end")
	m.Flags = vNondetUint32("flags")
	m.Kind = Span_SpanKind(int32(uint32(small("kind", which == 1))))
	m.DroppedEventsCount = uint32(small("dropped_events", which == 2))
	m.Name = vNondetString("name", 1)
	var tid [16]byte
	copy(tid[:8], vNondetBytes("trace_id_hi", 8))
	copy(tid[8:], vNondetBytes("trace_id_lo", 8))
	m.TraceId = data.TraceID(tid)
	var psid [8]byte
	copy(psid[:], vNondetBytes("parent", 8))
	m.ParentSpanId = data.SpanID(psid)
	nev := 0
	if vParam("events") == 1 {
		nev = vChoice("events", 2)
	}
	if nev == 1 {
		ev := &Span_Event{TimeUnixNano: vNondetUint64("event_time"), Name: "e"}
		ev.DroppedAttributesCount = uint32(small("event_dropped", which == 3))
		m.Events = []*Span_Event{ev}
	}
	m.Status = Status{Message: "m", Code: Status_StatusCode(int32(uint32(small("status", false))))}

	b, err := m.Marshal()
	vAssert(err == nil, "span/marshal-ok")
	vAssert(len(b) == m.Size(), "span/size-equals-encoded-length")
	var out Span
	vAssert(out.Unmarshal(b) == nil, "span/decoding-its-own-encoding-succeeds")
	vAssert(out.StartTimeUnixNano == m.StartTimeUnixNano && out.EndTimeUnixNano == m.EndTimeUnixNano, "span/timestamps-round-trip")
	vAssert(out.Flags == m.Flags && out.Kind == m.Kind && out.DroppedEventsCount == m.DroppedEventsCount, "span/scalars-round-trip")
	vAssert(out.Name == m.Name, "span/name-round-trips")
	vAssert(out.TraceId == m.TraceId, "span/trace-id-round-trips")
	vAssert(out.ParentSpanId == m.ParentSpanId && out.SpanId == m.SpanId, "span/span-ids-round-trip")
	vAssert(len(out.Events) == nev, "span/event-count-round-trips")
	if nev == 1 && len(out.Events) == 1 {
		vAssert(out.Events[0].TimeUnixNano == m.Events[0].TimeUnixNano && out.Events[0].Name == "e" && out.Events[0].DroppedAttributesCount == m.Events[0].DroppedAttributesCount, "span/event-round-trips")
	}
	vAssert(out.Status.Message == "m" && out.Status.Code == m.Status.Code, "span/status-round-trips")
	vReach("end")
}

func VerifC08SpanTotal() {
	b := vNondetBytes("wire", vParam("N"))
	var m Span
	if m.Unmarshal(b) != nil {
		vReach("rejected")
		return
	}
	vReach("accepted")
	b1, err := m.Marshal()
	vAssert(err == nil && len(b1) == m.Size(), "span-total/accepted-message-re-encodes-with-consistent-size")
	var m2 Span
	vAssert(m2.Unmarshal(b1) == nil, "span-total/re-encoding-decodes")
	b2, _ := m2.Marshal()
	vAssert(len(b2) == len(b1), "span-total/re-encoding-is-a-fixed-point-length")
	if len(b2) == len(b1) {
		for i := range b1 {
			vAssert(b1[i] == b2[i], "span-total/re-encoding-is-a-fixed-point")
		}
	}
}
