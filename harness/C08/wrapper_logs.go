package PKGNAME

// C08 (protobuf): the OTLP export request / response wrappers of one signal: the response's partial
// success (rejected count over the full int64 range — negative values take ten bytes —, message) and
// a request holding one resource entry with a schema URL round-trip with a consistent size; N
// arbitrary bytes never panic or hang the response decoder.

import (
	v1 "go.opentelemetry.io/collector/pdata/internal/data/protogen/logs/v1"
)

func VerifC08LogsWrapperRoundTrip() {
	rej := vNondetInt64("rejected")
	msg := vNondetString("message", 2*vChoice("message-len", 2))
	m := &ExportLogsServiceResponse{PartialSuccess: ExportLogsPartialSuccess{RejectedLogRecords: rej, ErrorMessage: msg}}
	b, err := m.Marshal()
	vAssert(err == nil, "wrapper/response-marshal-ok")
	vAssert(len(b) == m.Size(), "wrapper/response-size-equals-encoded-length")
	var out ExportLogsServiceResponse
	vAssert(out.Unmarshal(b) == nil, "wrapper/response-decoding-its-own-encoding-succeeds")
	vAssert(out.PartialSuccess.RejectedLogRecords == rej, "wrapper/rejected-count-round-trips")
	vAssert(out.PartialSuccess.ErrorMessage == msg, "wrapper/error-message-round-trips")

	url := vNondetString("schema_url", 2*vChoice("url-len", 2))
	n := vChoice("resources", 3)
	req := &ExportLogsServiceRequest{}
	for i := 0; i < n; i++ {
		req.ResourceLogs = append(req.ResourceLogs, &v1.ResourceLogs{SchemaUrl: url})
	}
	rb, err := req.Marshal()
	vAssert(err == nil, "wrapper/request-marshal-ok")
	vAssert(len(rb) == req.Size(), "wrapper/request-size-equals-encoded-length")
	var rout ExportLogsServiceRequest
	vAssert(rout.Unmarshal(rb) == nil, "wrapper/request-decoding-its-own-encoding-succeeds")
	vAssert(len(rout.ResourceLogs) == n, "wrapper/request-entry-count-round-trips")
	if len(rout.ResourceLogs) == n {
		for i := 0; i < n; i++ {
			vAssert(rout.ResourceLogs[i] != nil && rout.ResourceLogs[i].SchemaUrl == url, "wrapper/request-entry-round-trips")
		}
	}
	vReach("end")
}

func VerifC08LogsResponseTotal() {
	b := vNondetBytes("wire", vParam("N"))
	var m ExportLogsServiceResponse
	if m.Unmarshal(b) != nil {
		vReach("rejected")
		return
	}
	vReach("accepted")
	b1, err := m.Marshal()
	vAssert(err == nil && len(b1) == m.Size(), "wrapper-total/accepted-message-re-encodes-with-consistent-size")
	var m2 ExportLogsServiceResponse
	vAssert(m2.Unmarshal(b1) == nil, "wrapper-total/re-encoding-decodes")
	vAssert(m2.PartialSuccess.RejectedLogRecords == m.PartialSuccess.RejectedLogRecords && m2.PartialSuccess.ErrorMessage == m.PartialSuccess.ErrorMessage, "wrapper-total/re-decoding-yields-the-same-message")
}
