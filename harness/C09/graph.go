package PKGNAME

// C09 / C10 (pipeline graph): service/internal/graph.Build + StartAll + ShutdownAll on pipeline
// configurations whose receiver / processor / exporter / connector references are identifiers with
// symbolic names — which pipeline shares which receiver, exporter or connector with which other
// pipeline, whether connectors chain, fan in, fan out or form a cycle is decided by the solver —
// with instrumented components built through the real builders and factories.
//
// vParam("mode") selects what is asserted after Build:
//   0  routing (C09): a payload with a symbolic tag injected at every receiver instance reaches
//      exactly the exporters the configuration says, through the processors of each pipeline in the
//      configured order, once per path; instance counts; rejected configurations
//   1  life cycle (C10): StartAll / ShutdownAll order and exactly-once with symbolic start / stop failures

import (
	"context"
	"errors"
	"sort"
	"strings"

	"go.opentelemetry.io/collector/component"
	"go.opentelemetry.io/collector/component/componentstatus"
	"go.opentelemetry.io/collector/component/componenttest"
	"go.opentelemetry.io/collector/connector"
	"go.opentelemetry.io/collector/consumer"
	"go.opentelemetry.io/collector/exporter"
	"go.opentelemetry.io/collector/pdata/pcommon"
	"go.opentelemetry.io/collector/pdata/plog"
	"go.opentelemetry.io/collector/pdata/ptrace"
	"go.opentelemetry.io/collector/pipeline"
	"go.opentelemetry.io/collector/processor"
	"go.opentelemetry.io/collector/receiver"
	"go.opentelemetry.io/collector/service/internal/builders"
	"go.opentelemetry.io/collector/service/internal/status"
	"go.opentelemetry.io/collector/service/pipelines"
)

type vc9TrailKey struct{}

func vc9Trail(ctx context.Context) string {
	s, _ := ctx.Value(vc9TrailKey{}).(string)
	return s
}

type vc9Delivery struct {
	exporter string // instance key of the exporter
	trail    string
	tag      uint64
}

type vc9World struct {
	deliveries []vc9Delivery
	events     []string // "start:<key>" / "stop:<key>"
	created    map[string]int
	insts      []*vc9Comp
	serial     int
}

type vc9Comp struct {
	w         *vc9World
	key       string // set at creation for receivers, exporters, connectors; "proc:<name>#<serial>" for processors until labelled
	label     string // what the trail shows
	nextT     consumer.Traces
	nextL     consumer.Logs
	mutates   bool
	isExp     bool
	failStart bool
	failStop  bool
	starts    int
	stops     int
	// mode 2: the component reports a recoverable error from inside its own Start and stays in it
	reportsRecoverable bool
	instance           *componentstatus.InstanceID
}

var errVc9Start = errors.New("component start failed")
var errVc9Stop = errors.New("component stop failed")

func (c *vc9Comp) Start(_ context.Context, host component.Host) error {
	c.starts++
	c.w.events = append(c.w.events, "start:"+c.key)
	if hw, ok := host.(*HostWrapper); ok {
		c.instance = hw.InstanceID
	}
	if c.reportsRecoverable {
		componentstatus.ReportStatus(host, componentstatus.NewRecoverableErrorEvent(errVc9Start))
	}
	if c.failStart {
		return errVc9Start
	}
	return nil
}

func (c *vc9Comp) Shutdown(context.Context) error {
	c.stops++
	c.w.events = append(c.w.events, "stop:"+c.key)
	if c.failStop {
		return errVc9Stop
	}
	return nil
}

func (c *vc9Comp) Capabilities() consumer.Capabilities {
	return consumer.Capabilities{MutatesData: c.mutates}
}

func vc9TagOfTraces(td ptrace.Traces) uint64 {
	return uint64(td.ResourceSpans().At(0).ScopeSpans().At(0).Spans().At(0).StartTimestamp())
}

func vc9TagOfLogs(ld plog.Logs) uint64 {
	return uint64(ld.ResourceLogs().At(0).ScopeLogs().At(0).LogRecords().At(0).Timestamp())
}

func (c *vc9Comp) ConsumeTraces(ctx context.Context, td ptrace.Traces) error {
	if c.isExp {
		c.w.deliveries = append(c.w.deliveries, vc9Delivery{c.key, vc9Trail(ctx), vc9TagOfTraces(td)})
		return nil
	}
	if c.mutates {
		vAssert(!td.IsReadOnly(), "graph/component-that-declares-mutation-gets-mutable-data")
	}
	ctx = context.WithValue(ctx, vc9TrailKey{}, vc9Trail(ctx)+c.label+";")
	if c.nextT != nil {
		return c.nextT.ConsumeTraces(ctx, td)
	}
	// a traces -> logs connector: a new payload carrying the same tag
	ld := plog.NewLogs()
	ld.ResourceLogs().AppendEmpty().ScopeLogs().AppendEmpty().LogRecords().AppendEmpty().SetTimestamp(td.ResourceSpans().At(0).ScopeSpans().At(0).Spans().At(0).StartTimestamp())
	return c.nextL.ConsumeLogs(ctx, ld)
}

func (c *vc9Comp) ConsumeLogs(ctx context.Context, ld plog.Logs) error {
	if c.isExp {
		c.w.deliveries = append(c.w.deliveries, vc9Delivery{c.key, vc9Trail(ctx), vc9TagOfLogs(ld)})
		return nil
	}
	if c.mutates {
		vAssert(!ld.IsReadOnly(), "graph/component-that-declares-mutation-gets-mutable-data")
	}
	ctx = context.WithValue(ctx, vc9TrailKey{}, vc9Trail(ctx)+c.label+";")
	if c.nextL != nil {
		return c.nextL.ConsumeLogs(ctx, ld)
	}
	// a logs -> traces connector: a new payload carrying the same tag
	td := ptrace.NewTraces()
	td.ResourceSpans().AppendEmpty().ScopeSpans().AppendEmpty().Spans().AppendEmpty().SetStartTimestamp(ld.ResourceLogs().At(0).ScopeLogs().At(0).LogRecords().At(0).Timestamp())
	return c.nextT.ConsumeTraces(ctx, td)
}

func (w *vc9World) mk(key string) *vc9Comp {
	w.created[key]++
	c := &vc9Comp{w: w, key: key, label: key}
	w.insts = append(w.insts, c)
	return c
}

type vc9Cfg struct{}

func vc9DefaultCfg() component.Config { return &vc9Cfg{} }

const vc9Stable = component.StabilityLevelStable

type vc9Pipe struct {
	id    pipeline.ID
	sig   string // "t" or "l"
	recv  []string
	procs []string
	exps  []string
}

func vc9Uniq(xs []string) []string {
	var out []string
	for _, x := range xs {
		dup := false
		for _, y := range out {
			if x == y {
				dup = true
			}
		}
		if !dup {
			out = append(out, x)
		}
	}
	return out
}

func vc9IsConn(name string) bool { return name == "c" || name == "d" }

// the connector factory of the harness supports traces->traces and logs->logs and exactly one of
// traces->logs / logs->traces (chosen per run)
var vc9NoLogsToTraces = true

func vc9Supported(from, to string) bool {
	if vc9NoLogsToTraces {
		return !(from == "l" && to == "t")
	}
	return !(from == "t" && to == "l")
}

func VerifC09Graph() {
	mode := vParam("mode")
	typ := component.MustNewType("t")
	w := &vc9World{created: map[string]int{}}
	vc9NoLogsToTraces = vParam("signals") < 2 || vChoice("unsupported-pair", 2) == 0
	mutBits := map[string]bool{}

	// ---- the configuration -------------------------------------------------------------------
	np := 1 + vChoice("pipelines", vParam("maxPipelines"))
	var pipes []*vc9Pipe
	// which component a reference names is a structural choice (explored exhaustively within the
	// bound); quantities — payload tags, start / stop outcomes, mutation bits — stay symbolic
	refs := func(tag string, min, max int, names []string) []string {
		var out []string
		n := min + vChoice(tag+"-refs", max-min+1)
		for i := 0; i < n; i++ {
			out = append(out, names[vChoice(tag, len(names))])
		}
		return out
	}
	endNames := append([]string{"a", "A", "b"}[:vParam("plainNames")], []string{"c", "d"}[:vParam("connectors")]...) // a, b plain components; c, d connectors
	for i := 0; i < np; i++ {
		p := &vc9Pipe{sig: "t"}
		sig := pipeline.SignalTraces
		if vParam("signals") > 1 && vChoice("signal", 2) == 1 {
			p.sig, sig = "l", pipeline.SignalLogs
		}
		p.id = pipeline.NewIDWithName(sig, string(rune('p'+i)))
		p.recv = refs("receiver", 1, vParam("maxRecvRefs"), endNames)
		p.procs = refs("processor", 0, vParam("maxProcs"), []string{"a", "A"})
		if len(p.procs) == 2 {
			vAssume(p.procs[0] != p.procs[1]) // a valid configuration lists a processor once per pipeline
		}
		p.exps = refs("exporter", 1, vParam("maxExpRefs"), endNames)
		pipes = append(pipes, p)
	}
	byID := func(name string) component.ID { return component.NewIDWithName(typ, name) }
	toIDs := func(names []string) []component.ID {
		var out []component.ID
		for _, n := range names {
			out = append(out, byID(n))
		}
		return out
	}
	pcfg := pipelines.Config{}
	for _, p := range pipes {
		pcfg[p.id] = &pipelines.PipelineConfig{Receivers: toIDs(p.recv), Processors: toIDs(p.procs), Exporters: toIDs(p.exps)}
	}

	// ---- factories -------------------------------------------------------------------------------
	plain := map[component.ID]component.Config{byID("a"): &vc9Cfg{}, byID("A"): &vc9Cfg{}, byID("b"): &vc9Cfg{}}
	conns := map[component.ID]component.Config{byID("c"): &vc9Cfg{}, byID("d"): &vc9Cfg{}}
	rf := receiver.NewFactory(typ, vc9DefaultCfg,
		receiver.WithTraces(func(_ context.Context, set receiver.Settings, _ component.Config, next consumer.Traces) (receiver.Traces, error) {
			c := w.mk("recv:t/" + set.ID.Name())
			c.nextT = next
			return c, nil
		}, vc9Stable),
		receiver.WithLogs(func(_ context.Context, set receiver.Settings, _ component.Config, next consumer.Logs) (receiver.Logs, error) {
			c := w.mk("recv:l/" + set.ID.Name())
			c.nextL = next
			return c, nil
		}, vc9Stable))
	mkProc := func(name string) *vc9Comp {
		w.serial++
		c := w.mk("proc:" + name)
		c.key = "proc:" + name + "#" + string(rune('0'+w.serial))
		c.label = c.key
		if _, ok := mutBits[c.key]; !ok {
			mutBits[c.key] = mode == 0 && vParam("mutation") > 0 && vNondetBool("processor-mutates")
		}
		c.mutates = mutBits[c.key]
		return c
	}
	pf := processor.NewFactory(typ, vc9DefaultCfg,
		processor.WithTraces(func(_ context.Context, set processor.Settings, _ component.Config, next consumer.Traces) (processor.Traces, error) {
			c := mkProc(set.ID.Name())
			c.nextT = next
			return c, nil
		}, vc9Stable),
		processor.WithLogs(func(_ context.Context, set processor.Settings, _ component.Config, next consumer.Logs) (processor.Logs, error) {
			c := mkProc(set.ID.Name())
			c.nextL = next
			return c, nil
		}, vc9Stable))
	ef := exporter.NewFactory(typ, vc9DefaultCfg,
		exporter.WithTraces(func(_ context.Context, set exporter.Settings, _ component.Config) (exporter.Traces, error) {
			c := w.mk("exp:t/" + set.ID.Name())
			c.isExp = true
			return c, nil
		}, vc9Stable),
		exporter.WithLogs(func(_ context.Context, set exporter.Settings, _ component.Config) (exporter.Logs, error) {
			c := w.mk("exp:l/" + set.ID.Name())
			c.isExp = true
			return c, nil
		}, vc9Stable))
	copts := []connector.FactoryOption{
		connector.WithTracesToTraces(func(_ context.Context, set connector.Settings, _ component.Config, next consumer.Traces) (connector.Traces, error) {
			c := w.mk("conn:t>t/" + set.ID.Name())
			c.nextT = next
			return c, nil
		}, vc9Stable),
		connector.WithLogsToLogs(func(_ context.Context, set connector.Settings, _ component.Config, next consumer.Logs) (connector.Logs, error) {
			c := w.mk("conn:l>l/" + set.ID.Name())
			c.nextL = next
			return c, nil
		}, vc9Stable),
	}
	if vc9NoLogsToTraces {
		copts = append(copts, connector.WithTracesToLogs(func(_ context.Context, set connector.Settings, _ component.Config, next consumer.Logs) (connector.Traces, error) {
			c := w.mk("conn:t>l/" + set.ID.Name())
			c.nextL = next
			return c, nil
		}, vc9Stable))
	} else {
		copts = append(copts, connector.WithLogsToTraces(func(_ context.Context, set connector.Settings, _ component.Config, next consumer.Traces) (connector.Logs, error) {
			c := w.mk("conn:l>t/" + set.ID.Name())
			c.nextT = next
			return c, nil
		}, vc9Stable))
	}
	cf := connector.NewFactory(typ, vc9DefaultCfg, copts...)
	set := Settings{
		Telemetry:        componenttest.NewNopTelemetrySettings(),
		BuildInfo:        component.NewDefaultBuildInfo(),
		ReceiverBuilder:  builders.NewReceiver(plain, map[component.Type]receiver.Factory{typ: rf}),
		ProcessorBuilder: builders.NewProcessor(plain, map[component.Type]processor.Factory{typ: pf}),
		ExporterBuilder:  builders.NewExporter(plain, map[component.Type]exporter.Factory{typ: ef}),
		ConnectorBuilder: builders.NewConnector(conns, map[component.Type]connector.Factory{typ: cf}),
		PipelineConfigs:  pcfg,
	}

	// ---- the oracle, from the configuration alone ------------------------------------------------
	// connector use: unsupported when some use as exporter (receiver) has no supported counterpart
	unsupported := false
	for _, cn := range []string{"c", "d"} {
		expSigs, recSigs := map[string]bool{}, map[string]bool{}
		for _, p := range pipes {
			for _, e := range p.exps {
				if e == cn {
					expSigs[p.sig] = true
				}
			}
			for _, r := range p.recv {
				if r == cn {
					recSigs[p.sig] = true
				}
			}
		}
		for _, es := range []string{"t", "l"} {
			if !expSigs[es] {
				continue
			}
			ok := false
			for _, rs := range []string{"t", "l"} {
				if recSigs[rs] && vc9Supported(es, rs) {
					ok = true
				}
			}
			if !ok {
				unsupported = true
			}
		}
		for _, rs := range []string{"t", "l"} {
			if !recSigs[rs] {
				continue
			}
			ok := false
			for _, es := range []string{"t", "l"} {
				if expSigs[es] && vc9Supported(es, rs) {
					ok = true
				}
			}
			if !ok {
				unsupported = true
			}
		}
	}
	// pipeline P feeds pipeline Q when P exports to a connector that Q receives from over a supported pair
	feeds := func(p, q *vc9Pipe) []string {
		var via []string
		for _, e := range vc9Uniq(p.exps) {
			if !vc9IsConn(e) || !vc9Supported(p.sig, q.sig) {
				continue
			}
			for _, r := range vc9Uniq(q.recv) {
				if r == e {
					via = append(via, e)
				}
			}
		}
		return via
	}
	cyclic := false
	if !unsupported {
		for _, start := range pipes {
			seen := map[*vc9Pipe]bool{}
			var walk func(p *vc9Pipe) bool
			walk = func(p *vc9Pipe) bool {
				for _, q := range pipes {
					if len(feeds(p, q)) == 0 {
						continue
					}
					if q == start {
						return true
					}
					if !seen[q] {
						seen[q] = true
						if walk(q) {
							return true
						}
					}
				}
				return false
			}
			if walk(start) {
				cyclic = true
			}
		}
	}

	g, err := Build(context.Background(), set)
	if unsupported || cyclic {
		vReach("rejected")
		if unsupported {
			vAssert(err != nil, "graph/connector-use-without-supported-counterpart-is-rejected")
		} else {
			vReach("cycle")
			vAssert(err != nil, "graph/connector-cycle-is-rejected")
		}
		for _, c := range w.insts {
			vAssert(c.starts == 0, "graph/nothing-started-when-rejected")
		}
		return
	}
	vAssert(err == nil, "graph/valid-configuration-is-built")
	if err != nil {
		return
	}
	vReach("built")

	// ---- instances ---------------------------------------------------------------------------------
	wantCreated := map[string]int{}
	for _, p := range pipes {
		for _, r := range vc9Uniq(p.recv) {
			if !vc9IsConn(r) {
				wantCreated["recv:"+p.sig+"/"+r] = 1
			}
		}
		for _, e := range vc9Uniq(p.exps) {
			if !vc9IsConn(e) {
				wantCreated["exp:"+p.sig+"/"+e] = 1
			}
		}
		for _, pr := range p.procs {
			wantCreated["proc:"+pr]++
		}
		for _, q := range pipes {
			for _, cn := range feeds(p, q) {
				wantCreated["conn:"+p.sig+">"+q.sig+"/"+cn] = 1
			}
		}
	}
	var wantKeys []string
	for k := range wantCreated {
		wantKeys = append(wantKeys, k)
	}
	sort.Strings(wantKeys)
	for _, k := range wantKeys {
		n := wantCreated[k]
		vAssert(w.created[k] == n, "graph/instances/"+k[:4]+"-created-once-per-"+map[string]string{"recv": "signal", "exp:": "signal", "proc": "pipeline", "conn": "signal-pair"}[k[:4]])
	}
	for _, c := range w.insts {
		vAssert(wantCreated[strings.SplitN(c.key, "#", 2)[0]] > 0, "graph/instances/no-component-created-that-the-configuration-does-not-use")
	}
	// label every processor instance with the pipeline that owns it (separate instances per pipeline)
	labelled := map[*vc9Comp]bool{}
	for _, p := range pipes {
		pn := g.pipelines[p.id]
		vAssert(pn != nil && len(pn.processors) == len(p.procs), "graph/instances/pipeline-has-its-configured-processors")
		if pn == nil || len(pn.processors) != len(p.procs) {
			return
		}
		for i, node := range pn.processors {
			c, _ := node.(*processorNode).Component.(*vc9Comp)
			vAssert(c != nil && !labelled[c], "graph/instances/processor-instance-belongs-to-one-pipeline")
			if c == nil || labelled[c] {
				return
			}
			labelled[c] = true
			c.label = "proc:" + p.id.Name() + "/" + p.procs[i]
			c.key = c.label
		}
	}

	// expected paths: instance keys from a receiver to an exporter, in order
	type vc9Path struct {
		keys  []string
		trail string
		exp   string
	}
	var expand func(p *vc9Pipe, keys []string, trail string, depth int) []vc9Path
	expand = func(p *vc9Pipe, keys []string, trail string, depth int) []vc9Path {
		var out []vc9Path
		if depth > len(pipes)+1 {
			return out
		}
		for _, pr := range p.procs {
			k := "proc:" + p.id.Name() + "/" + pr
			keys = append(append([]string(nil), keys...), k)
			trail += k + ";"
		}
		for _, e := range vc9Uniq(p.exps) {
			if !vc9IsConn(e) {
				k := "exp:" + p.sig + "/" + e
				out = append(out, vc9Path{append(append([]string(nil), keys...), k), trail, k})
				continue
			}
			// one connector instance per (source signal, destination signal); it forwards to every
			// pipeline of the destination signal that lists it as a receiver
			for _, q := range pipes {
				isVia := false
				for _, v := range feeds(p, q) {
					if v == e {
						isVia = true
					}
				}
				if !isVia {
					continue
				}
				k := "conn:" + p.sig + ">" + q.sig + "/" + e
				out = append(out, expand(q, append(append([]string(nil), keys...), k), trail+k+";", depth+1)...)
			}
		}
		return out
	}
	var allPaths []vc9Path
	pathsFrom := map[string][]vc9Path{} // receiver instance key -> paths
	var recvKeys []string
	for _, p := range pipes {
		for _, r := range vc9Uniq(p.recv) {
			if vc9IsConn(r) {
				continue
			}
			k := "recv:" + p.sig + "/" + r
			if _, ok := pathsFrom[k]; !ok {
				recvKeys = append(recvKeys, k)
			}
			ps := expand(p, []string{k}, "", 0)
			pathsFrom[k] = append(pathsFrom[k], ps...)
			allPaths = append(allPaths, ps...)
		}
	}
	inst := map[string]*vc9Comp{}
	for _, c := range w.insts {
		inst[c.key] = c
	}

	if mode == 0 {
		// ---- routing --------------------------------------------------------------------------------
		for _, rk := range recvKeys {
			rc := inst[rk]
			vAssert(rc != nil, "graph/receiver-instance-exists")
			if rc == nil {
				return
			}
			tag := vNondetUint64("payload-tag")
			w.deliveries = nil
			var cerr error
			if rc.nextT != nil {
				td := ptrace.NewTraces()
				td.ResourceSpans().AppendEmpty().ScopeSpans().AppendEmpty().Spans().AppendEmpty().SetStartTimestamp(pcommon.Timestamp(tag))
				cerr = rc.nextT.ConsumeTraces(context.Background(), td)
			} else {
				ld := plog.NewLogs()
				ld.ResourceLogs().AppendEmpty().ScopeLogs().AppendEmpty().LogRecords().AppendEmpty().SetTimestamp(pcommon.Timestamp(tag))
				cerr = rc.nextL.ConsumeLogs(context.Background(), ld)
			}
			vAssert(cerr == nil, "graph/routing/consume-succeeds")
			var want, got []string
			for _, p := range pathsFrom[rk] {
				want = append(want, p.exp+"|"+p.trail)
			}
			for _, d := range w.deliveries {
				got = append(got, d.exporter+"|"+d.trail)
				vAssert(d.tag == tag, "graph/routing/payload-arrives-unchanged")
			}
			sort.Strings(want)
			sort.Strings(got)
			vAssert(len(got) >= len(want), "graph/routing/every-configured-path-delivers")
			vAssert(len(got) <= len(want), "graph/routing/no-delivery-beyond-the-configured-paths")
			if len(got) == len(want) {
				same := true
				for i := range got {
					if got[i] != want[i] {
						same = false
					}
				}
				vAssert(same, "graph/routing/delivered-to-exactly-the-configured-exporters-through-the-configured-processors-in-order")
			}
		}
		if len(allPaths) > 1 {
			vReach("several-paths")
		}
		vReach("end")
		return
	}

	if mode == 2 {
		// ---- status events of start-up (C11) -------------------------------------------------------------
		// one component (symbolic which, or none) reports RecoverableError from inside its Start and returns
		// nil: the automatic OK after a successful start is emitted only for components still in Starting
		who := vNondetInt("reports-recoverable-during-start")
		vAssume(who >= -1 && who < len(w.insts))
		for i, c := range w.insts {
			c.reportsRecoverable = i == who
		}
		seqs := map[*componentstatus.InstanceID][]componentstatus.Status{}
		rep := status.NewReporter(func(id *componentstatus.InstanceID, ev *componentstatus.Event) {
			seqs[id] = append(seqs[id], ev.Status())
		}, func(error) {})
		vAssert(g.StartAll(context.Background(), &Host{Reporter: rep}) == nil, "start-status/start-succeeds")
		for _, c := range w.insts {
			vAssert(c.instance != nil, "start-status/component-started-with-its-instance-id")
			if c.instance == nil {
				continue
			}
			seq := seqs[c.instance]
			if c.reportsRecoverable {
				vReach("reported-during-start")
				vAssert(len(seq) == 2 && seq[0] == componentstatus.StatusStarting && seq[1] == componentstatus.StatusRecoverableError,
					"start-status/no-automatic-ok-for-a-component-that-left-starting")
			} else {
				vAssert(len(seq) == 2 && seq[0] == componentstatus.StatusStarting && seq[1] == componentstatus.StatusOK,
					"start-status/starting-then-automatic-ok")
			}
		}
		vReach("end")
		return
	}

	// ---- life cycle (C10) ------------------------------------------------------------------------------
	// at most one component fails in Start and at most one in Shutdown; which ones is symbolic
	fs, fp := vNondetInt("failing-start"), vNondetInt("failing-stop")
	vAssume(fs >= -1 && fs < len(w.insts) && fp >= -1 && fp < len(w.insts))
	for i, c := range w.insts {
		c.failStart = i == fs
		c.failStop = i == fp
	}
	rep := status.NewReporter(func(*componentstatus.InstanceID, *componentstatus.Event) {}, func(error) {})
	host := &Host{Reporter: rep}
	serr := g.StartAll(context.Background(), host)
	startPos := map[string]int{}
	failedAt := -1
	for i, ev := range w.events {
		vAssert(strings.HasPrefix(ev, "start:"), "lifecycle/no-shutdown-during-start")
		k := strings.TrimPrefix(ev, "start:")
		_, dup := startPos[k]
		vAssert(!dup, "lifecycle/component-started-at-most-once")
		startPos[k] = i
		if inst[k] != nil && inst[k].failStart && failedAt < 0 {
			failedAt = i
		}
	}
	// downstream first: on every path, the component that receives data started before the one that sends it
	for _, p := range allPaths {
		for i := 0; i+1 < len(p.keys); i++ {
			up, upStarted := startPos[p.keys[i]]
			down, downStarted := startPos[p.keys[i+1]]
			if upStarted {
				vAssert(downStarted && down < up, "lifecycle/started-only-after-everything-it-sends-to")
			}
		}
	}
	if failedAt >= 0 {
		vReach("start-failed")
		vAssert(serr != nil && errors.Is(serr, errVc9Start), "lifecycle/start-failure-is-returned")
		vAssert(failedAt == len(w.events)-1, "lifecycle/start-failure-aborts-start-up")
	} else {
		vAssert(serr == nil, "lifecycle/start-succeeds-when-no-component-fails")
		vAssert(len(w.events) == len(w.insts), "lifecycle/every-component-started")
	}
	w.events = nil
	herr := g.ShutdownAll(context.Background(), rep)
	stopPos := map[string]int{}
	for i, ev := range w.events {
		vAssert(strings.HasPrefix(ev, "stop:"), "lifecycle/no-start-during-shutdown")
		stopPos[strings.TrimPrefix(ev, "stop:")] = i
	}
	anyStopFail := false
	for _, c := range w.insts {
		vAssert(c.stops == 1, "lifecycle/every-component-shut-down-exactly-once")
		vAssert(c.starts <= 1, "lifecycle/component-started-at-most-once")
		anyStopFail = anyStopFail || c.failStop
	}
	vAssert((herr != nil) == anyStopFail, "lifecycle/shutdown-failure-reported-iff-one-failed")
	if anyStopFail {
		vReach("stop-failed")
	}
	// upstream first: a component is shut down only after every component that sends data to it
	for _, p := range allPaths {
		for i := 0; i+1 < len(p.keys); i++ {
			vAssert(stopPos[p.keys[i]] < stopPos[p.keys[i+1]], "lifecycle/shut-down-only-after-everything-that-sends-to-it")
		}
	}
	vReach("end")
}
