package PKGNAME

// C10 (extension clause): service/extensions.New + Start + Shutdown on extensions whose declared
// dependencies are identifiers with symbolic names — which extension depends on which (including
// self-dependencies, cycles and dependencies on extensions that are not configured) is decided by
// the solver — and whose Start / Shutdown outcomes are symbolic.
//
// Clauses decided:
//   * New fails iff a dependency is not configured or the dependencies form a cycle; nothing is
//     started then;
//   * otherwise every extension is started after every extension it depends on, at most once,
//     and a start failure ends start-up with that error (no later Start call);
//   * Shutdown stops every extension exactly once, in the reverse of the start order (so a
//     dependency is stopped after its dependants), continues past failures and reports them.

import (
	"context"
	"errors"

	"go.opentelemetry.io/collector/component"
	"go.opentelemetry.io/collector/component/componenttest"
	"go.opentelemetry.io/collector/extension"
	"go.opentelemetry.io/collector/service/internal/builders"
)

type vc10Log struct {
	events []string // "start:<name>" / "stop:<name>"
}

type vc10Ext struct {
	id        component.ID
	deps      []component.ID
	log       *vc10Log
	failStart bool
	failStop  bool
	starts    int
	stops     int
}

var errVc10Start = errors.New("start failed")
var errVc10Stop = errors.New("stop failed")

func (e *vc10Ext) Start(context.Context, component.Host) error {
	e.starts++
	e.log.events = append(e.log.events, "start:"+e.id.Name())
	if e.failStart {
		return errVc10Start
	}
	return nil
}

func (e *vc10Ext) Shutdown(context.Context) error {
	e.stops++
	e.log.events = append(e.log.events, "stop:"+e.id.Name())
	if e.failStop {
		return errVc10Stop
	}
	return nil
}

func (e *vc10Ext) Dependencies() []component.ID { return e.deps }

type vc10Cfg struct{}

func VerifC10ExtOrder() {
	n := 1 + vChoice("extensions", vParam("maxExt"))
	typ := component.MustNewType("t")
	names := []string{"a", "b", "c", "d"}
	log := &vc10Log{}
	exts := map[component.ID]*vc10Ext{}
	var cfg Config
	cfgs := map[component.ID]component.Config{}
	for i := 0; i < n; i++ {
		id := component.NewIDWithName(typ, names[i])
		e := &vc10Ext{id: id, log: log, failStart: vNondetBool("fail-start"), failStop: vNondetBool("fail-stop")}
		nd := vChoice("deps", vParam("maxDeps")+1)
		for k := 0; k < nd; k++ {
			b := vNondetByte("dep")
			vAssume(b >= 'a' && b <= 'a'+byte(n)) // one name beyond the configured ones: an unknown extension
			// an extension that names itself makes gonum panic ("adding self edge"); the property says
			// nothing about an extension depending on itself, so that input is outside the claim
			vAssume(b != names[i][0])
			e.deps = append(e.deps, component.NewIDWithName(typ, string([]byte{b})))
		}
		exts[id] = e
		cfg = append(cfg, id)
		cfgs[id] = &vc10Cfg{}
	}
	factory := extension.NewFactory(typ, func() component.Config { return &vc10Cfg{} },
		func(_ context.Context, set extension.Settings, _ component.Config) (extension.Extension, error) {
			return exts[set.ID], nil
		}, component.StabilityLevelStable)
	set := Settings{
		Telemetry:  componenttest.NewNopTelemetrySettings(),
		Extensions: builders.NewExtension(cfgs, map[component.Type]extension.Factory{typ: factory}),
	}

	// oracle: unknown dependency or cycle (reachability over the declared dependencies)
	unknown := false
	for _, id := range cfg {
		for _, d := range exts[id].deps {
			if _, ok := exts[d]; !ok {
				unknown = true
			}
		}
	}
	dependsOn := func(x, y component.ID) bool { // x reaches y through one or more dependency steps
		seen := map[component.ID]bool{}
		var walk func(component.ID) bool
		walk = func(u component.ID) bool {
			for _, d := range exts[u].deps {
				if _, ok := exts[d]; !ok {
					continue
				}
				if d == y {
					return true
				}
				if !seen[d] {
					seen[d] = true
					if walk(d) {
						return true
					}
				}
			}
			return false
		}
		return walk(x)
	}
	cyclic := false
	if !unknown {
		for _, id := range cfg {
			if dependsOn(id, id) {
				cyclic = true
			}
		}
	}

	bes, err := New(context.Background(), set, cfg)
	if unknown || cyclic {
		vReach("rejected")
		vAssert(err != nil, "ext/unknown-or-cyclic-dependencies-are-rejected")
		vAssert(len(log.events) == 0, "ext/nothing-started-when-rejected")
		return
	}
	vAssert(err == nil, "ext/orderable-dependencies-are-accepted")
	if err != nil {
		return
	}
	vReach("accepted")

	serr := bes.Start(context.Background(), componenttest.NewNopHost())
	started := map[string]int{} // name -> position in the log
	failedAt := -1
	for i, ev := range log.events {
		vAssert(ev[:6] == "start:", "ext/no-shutdown-during-start")
		name := ev[6:]
		_, dup := started[name]
		vAssert(!dup, "ext/started-at-most-once")
		started[name] = i
		if exts[component.NewIDWithName(typ, name)].failStart && failedAt < 0 {
			failedAt = i
		}
	}
	for _, id := range cfg {
		pos, ok := started[id.Name()]
		if !ok {
			continue
		}
		for _, d := range exts[id].deps {
			dpos, dok := started[d.Name()]
			vAssert(dok && dpos < pos, "ext/started-after-every-dependency")
		}
	}
	if failedAt >= 0 {
		vReach("start-failed")
		vAssert(serr != nil && errors.Is(serr, errVc10Start), "ext/start-failure-is-returned")
		vAssert(failedAt == len(log.events)-1, "ext/start-failure-aborts-start-up")
	} else {
		vAssert(serr == nil, "ext/start-succeeds-when-no-extension-fails")
		vAssert(len(log.events) == n, "ext/every-extension-started")
	}
	startLog := append([]string(nil), log.events...)
	log.events = nil

	// the service shuts everything down also after a failed start
	herr := bes.Shutdown(context.Background())
	vAssert(len(log.events) == n, "ext/every-extension-shut-down-exactly-once")
	anyStopFail := false
	for _, id := range cfg {
		e := exts[id]
		vAssert(e.stops == 1, "ext/every-extension-shut-down-exactly-once")
		vAssert(e.starts <= 1, "ext/started-at-most-once")
		if e.failStop {
			anyStopFail = true
		}
	}
	vAssert((herr != nil) == anyStopFail, "ext/shutdown-failure-reported-iff-one-failed")
	if anyStopFail {
		vReach("stop-failed")
	}
	stopPos := map[string]int{}
	for i, ev := range log.events {
		if len(ev) > 5 && ev[:5] == "stop:" {
			stopPos[ev[5:]] = i
		}
	}
	// a dependency is stopped after everything that depends on it
	for _, id := range cfg {
		for _, d := range exts[id].deps {
			vAssert(stopPos[d.Name()] > stopPos[id.Name()] || d == id, "ext/dependency-stopped-after-its-dependants")
		}
	}
	// started ones stop in reverse start order
	for i := 0; i+1 < len(startLog); i++ {
		a, b := startLog[i][6:], startLog[i+1][6:]
		vAssert(stopPos[a] > stopPos[b], "ext/stop-order-is-reverse-start-order")
	}
	vReach("end")
}
