package PKGNAME

// C11 (shared component): a component shared by several instances delivers every status event to
// every instance — also to one that attaches while the component is reporting concurrently.

import (
	"context"
	"sync"

	"go.opentelemetry.io/collector/component"
	"go.opentelemetry.io/collector/component/componentstatus"
)

type vc11Host struct {
	seq []componentstatus.Status
}

func (h *vc11Host) GetExtensions() map[component.ID]component.Component { return nil }
func (h *vc11Host) Report(e *componentstatus.Event)                      { h.seq = append(h.seq, e.Status()) }

type vc11Comp struct {
	host component.Host
}

func (c *vc11Comp) Start(_ context.Context, h component.Host) error { c.host = h; return nil }
func (c *vc11Comp) Shutdown(context.Context) error                  { return nil }

func VerifC11Shared() {
	inner := &vc11Comp{}
	comp := &Component[*vc11Comp]{component: inner, removeFunc: func() {}}
	h1, h2, h3 := &vc11Host{}, &vc11Host{}, &vc11Host{}
	ctx := context.Background()
	vAssert(comp.Start(ctx, h1) == nil, "first-start-ok")
	vAssert(len(h1.seq) == 1 && h1.seq[0] == componentstatus.StatusStarting, "first-instance-sees-starting")

	n := vParam("reports") // events reported by the component's own goroutine (<= 3 keeps the ring of 5 sufficient)
	var wg sync.WaitGroup
	wg.Add(2)
	go func() {
		defer wg.Done()
		rep := inner.host.(componentstatus.Reporter)
		for i := 0; i < n; i++ {
			if i%2 == 0 {
				rep.Report(componentstatus.NewEvent(componentstatus.StatusRecoverableError))
			} else {
				rep.Report(componentstatus.NewEvent(componentstatus.StatusOK))
			}
		}
	}()
	go func() {
		defer wg.Done()
		// later instances attach at arbitrary points of the component's reporting
		_ = comp.Start(ctx, h2)
		_ = comp.Start(ctx, h3)
	}()
	wg.Wait()
	vAssert(comp.Shutdown(ctx) == nil, "shutdown-ok")
	want := 1 + n + 2 // Starting, the component's own reports, Stopping, Stopped
	vAssert(len(h1.seq) == want, "first-instance-receives-every-event")
	for _, h := range []*vc11Host{h2, h3} {
		vAssert(len(h.seq) == len(h1.seq), "later-instance-receives-every-event")
		if len(h.seq) == len(h1.seq) {
			for i := range h.seq {
				vAssert(h.seq[i] == h1.seq[i], "later-instance-sees-the-same-sequence")
			}
		}
	}
	vReach("end")
}
