package PKGNAME

// C11 (shared component): a component shared by several instances delivers every status event to
// every instance — also to one that attaches while the component is reporting concurrently.

import (
	"context"
	"sync"

	"go.opentelemetry.io/collector/component"
	"go.opentelemetry.io/collector/component/componentstatus"
)

type vc11Host struct {
	seq []componentstatus.Status
}

func (h *vc11Host) GetExtensions() map[component.ID]component.Component { return nil }
func (h *vc11Host) Report(e *componentstatus.Event)                      { h.seq = append(h.seq, e.Status()) }

type vc11Comp struct {
	host component.Host
}

func (c *vc11Comp) Start(_ context.Context, h component.Host) error { c.host = h; return nil }
func (c *vc11Comp) Shutdown(context.Context) error                  { return nil }

func VerifC11Shared() {
	inner := &vc11Comp{}
	comp := &Component[*vc11Comp]{component: inner, removeFunc: func() {}}
	h1, h2, h3 := &vc11Host{}, &vc11Host{}, &vc11Host{}
	ctx := context.Background()
	vAssert(comp.Start(ctx, h1) == nil, "first-start-ok")
	vAssert(len(h1.seq) == 1 && h1.seq[0] == componentstatus.StatusStarting, "first-instance-sees-starting")

	n := vParam("reports") // events reported by the component's own goroutine (<= 3 keeps the ring of 5 sufficient)
	var wg sync.WaitGroup
	wg.Add(2)
	go func() {
		defer wg.Done()
		rep := inner.host.(componentstatus.Reporter)
		for i := 0; i < n; i++ {
			if i%2 == 0 {
				rep.Report(componentstatus.NewEvent(componentstatus.StatusRecoverableError))
			} else {
				rep.Report(componentstatus.NewEvent(componentstatus.StatusOK))
			}
		}
	}()
	go func() {
		defer wg.Done()
		// later instances attach at arbitrary points of the component's reporting
		_ = comp.Start(ctx, h2)
		_ = comp.Start(ctx, h3)
	}()
	wg.Wait()
	vAssert(comp.Shutdown(ctx) == nil, "shutdown-ok")
	want := 1 + n + 2 // Starting, the component's own reports, Stopping, Stopped
	vAssert(len(h1.seq) == want, "first-instance-receives-every-event")
	for _, h := range []*vc11Host{h2, h3} {
		vAssert(len(h.seq) == len(h1.seq), "later-instance-receives-every-event")
		if len(h.seq) == len(h1.seq) {
			for i := range h.seq {
				vAssert(h.seq[i] == h1.seq[i], "later-instance-sees-the-same-sequence")
			}
		}
	}
	vReach("end")
}

type vc11EvHost struct {
	evs []*componentstatus.Event
}

func (h *vc11EvHost) GetExtensions() map[component.ID]component.Component { return nil }
func (h *vc11EvHost) Report(e *componentstatus.Event)                      { h.evs = append(h.evs, e) }

// VerifC11SharedHistory: a history of K reports of arbitrary statuses (longer than the wrapper's
// memory), then an instance for another signal starts: what it is replayed is a contiguous, in-order
// suffix of what the first instance saw, ending with the latest event — so it ends in the status the
// component is in — and from then on both receive the same events.
func VerifC11SharedHistory() {
	inner := &vc11Comp{}
	comp := &Component[*vc11Comp]{component: inner, removeFunc: func() {}}
	h1, h2 := &vc11EvHost{}, &vc11EvHost{}
	ctx := context.Background()
	vAssert(comp.Start(ctx, h1) == nil, "history/first-start-ok")
	rep := inner.host.(componentstatus.Reporter)
	K := vParam("K")
	n := 1 + vChoice("reports", K)
	for i := 0; i < n; i++ {
		switch vChoice("status", 3) {
		case 0:
			rep.Report(componentstatus.NewEvent(componentstatus.StatusOK))
		case 1:
			rep.Report(componentstatus.NewEvent(componentstatus.StatusRecoverableError))
		default:
			rep.Report(componentstatus.NewEvent(componentstatus.StatusPermanentError))
		}
	}
	vAssert(len(h1.evs) == 1+n, "history/first-instance-receives-every-event")
	vAssert(comp.Start(ctx, h2) == nil, "history/late-start-ok")
	m := len(h2.evs)
	vAssert(m >= 1 && m <= len(h1.evs), "history/late-instance-is-replayed-something-and-nothing-invented")
	if m >= 1 && m <= len(h1.evs) {
		off := len(h1.evs) - m
		for i := 0; i < m; i++ {
			vAssert(h2.evs[i] == h1.evs[off+i], "history/replay-is-the-in-order-suffix-ending-with-the-latest-event")
		}
		vAssert(h2.evs[m-1].Status() == h1.evs[len(h1.evs)-1].Status(), "history/late-instance-ends-in-the-current-status")
	}
	rep.Report(componentstatus.NewEvent(componentstatus.StatusOK))
	vAssert(len(h2.evs) == m+1 && len(h1.evs) == n+2 && h2.evs[m] == h1.evs[n+1], "history/later-events-reach-both-instances")
	vAssert(comp.Shutdown(ctx) == nil, "history/shutdown-ok")
	vAssert(len(h1.evs) == n+4 && len(h2.evs) == m+3, "history/stopping-and-stopped-reach-both-instances")
	vReach("end")
}
