package PKGNAME

// C11: the status reporter against the documented state diagram (docs/component-status.md).

import (
	"errors"
	"sync"

	"go.opentelemetry.io/collector/component/componentstatus"
)

type vS = componentstatus.Status

const (
	vNone      = componentstatus.StatusNone
	vStarting  = componentstatus.StatusStarting
	vOK        = componentstatus.StatusOK
	vRecov     = componentstatus.StatusRecoverableError
	vPerm      = componentstatus.StatusPermanentError
	vFatal     = componentstatus.StatusFatalError
	vStopping  = componentstatus.StatusStopping
	vStoppedSt = componentstatus.StatusStopped
)

// vc11Legal is the documented diagram, written clause by clause as in docs/component-status.md.
func vc11Legal(c, e vS) bool {
	runtime := e == vOK || e == vRecov || e == vPerm || e == vFatal // statuses a running component reports
	switch {
	case c == vNone:
		return e == vStarting // a component's life starts with Starting
	case c == vFatal || c == vStoppedSt:
		return false // final states
	case e == c:
		return false // a repeated status is not a transition
	case e == vStarting || e == vNone:
		return false // Starting is only the first event; None is never reported
	case c == vPerm:
		return e == vStopping // permanent error can only go to Stopping
	case c == vStopping:
		return e == vStoppedSt || e == vRecov || e == vPerm || e == vFatal // errors may occur during shutdown
	case e == vStoppedSt:
		return false // Stopped only from Stopping
	case c == vStarting || c == vOK || c == vRecov:
		return runtime || e == vStopping
	}
	return false
}

var vc11Errs = []error{nil, errors.New("first cause"), errors.New("another cause")}

// vc11Event builds an event of status st; the error statuses carry the k-th error (nil, or one of two causes).
func vc11Event(st vS, k int) *componentstatus.Event {
	switch st {
	case vRecov:
		return componentstatus.NewRecoverableErrorEvent(vc11Errs[k])
	case vPerm:
		return componentstatus.NewPermanentErrorEvent(vc11Errs[k])
	case vFatal:
		return componentstatus.NewFatalErrorEvent(vc11Errs[k])
	}
	return componentstatus.NewEvent(st)
}

// VerifC11Step: one report from an arbitrary current state (both over the whole int32 range).
func VerifC11Step() {
	var events []vS
	invalid := 0
	rep := NewReporter(
		func(_ *componentstatus.InstanceID, ev *componentstatus.Event) { events = append(events, ev.Status()) },
		func(error) { invalid++ },
	).(*reporter)
	id := &componentstatus.InstanceID{}
	c := vS(vNondetInt32("current"))
	e := vS(vNondetInt32("reported"))
	vAssume(c >= vNone && c <= vStoppedSt) // the machine is only ever in one of its eight states
	// error statuses carry an error; whether a report is a transition never depends on which one
	rep.componentFSM(id).current = vc11Event(c, vChoice("current-error", 2))

	auto := vNondetBool("report-ok-if-starting")
	if auto {
		rep.ReportOKIfStarting(id)
		if c == vStarting {
			vAssert(len(events) == 1 && events[0] == vOK, "auto-ok/emitted-when-starting")
			vAssert(rep.componentFSM(id).current.Status() == vOK, "auto-ok/state-becomes-ok")
		} else {
			vAssert(len(events) == 0, "auto-ok/silent-unless-starting")
			vAssert(rep.componentFSM(id).current.Status() == c, "auto-ok/state-unchanged-unless-starting")
		}
		vAssert(invalid == 0, "auto-ok/never-an-invalid-transition")
		vReach("auto-ok")
		return
	}
	rep.ReportStatus(id, vc11Event(e, vChoice("reported-error", 3)))
	if vc11Legal(c, e) {
		vAssert(len(events) == 1 && events[0] == e, "legal-report/one-event-with-the-reported-status")
		vAssert(rep.componentFSM(id).current.Status() == e, "legal-report/state-updated")
		vAssert(invalid == 0, "legal-report/no-invalid-callback")
		vReach("legal")
	} else {
		vAssert(len(events) == 0, "illegal-report/no-event")
		vAssert(rep.componentFSM(id).current.Status() == c, "illegal-report/state-unchanged")
		vAssert(invalid == 1, "illegal-report/invalid-callback-once")
		vReach("illegal")
	}
}

// vc11CheckSeq checks a delivered per-instance sequence clause by clause.
func vc11CheckSeq(seq []vS, lbl string) {
	for i, s := range seq {
		if i == 0 {
			vAssert(s == vStarting, lbl+"/first-event-is-starting")
			continue
		}
		p := seq[i-1]
		vAssert(s != p, lbl+"/never-repeats-current-status")
		vAssert(p != vFatal && p != vStoppedSt, lbl+"/nothing-follows-fatal-or-stopped")
		vAssert(p != vPerm || s == vStopping, lbl+"/permanent-error-only-to-stopping")
		vAssert(s != vStoppedSt || p == vStopping, lbl+"/stopped-only-from-stopping")
		vAssert(s != vStarting, lbl+"/starting-only-first")
		vAssert(vc11Legal(p, s), lbl+"/every-step-is-an-edge-of-the-diagram")
	}
}

// VerifC11Seq: K arbitrary reports (status over the whole int32 range, or the automatic OK) spread
// over two instances; the delivered per-instance sequences must be paths of the diagram.
func VerifC11Seq() {
	K := vParam("K")
	ids := []*componentstatus.InstanceID{{}, {}}
	seqs := map[*componentstatus.InstanceID][]vS{}
	rep := NewReporter(
		func(id *componentstatus.InstanceID, ev *componentstatus.Event) { seqs[id] = append(seqs[id], ev.Status()) },
		func(error) {},
	)
	for i := 0; i < K; i++ {
		id := ids[vChoice("instance", 2)]
		if vNondetBool("auto") {
			rep.ReportOKIfStarting(id)
		} else {
			rep.ReportStatus(id, componentstatus.NewEvent(vS(vNondetInt32("status"))))
		}
	}
	vc11CheckSeq(seqs[ids[0]], "seq")
	vc11CheckSeq(seqs[ids[1]], "seq")
	vReach("end")
}

// VerifC11Concurrent: the service goroutine (Starting, automatic OK, Stopping, Stopped) races with
// the component's own goroutine reporting two arbitrary statuses.  Whatever the schedule, the
// delivered sequence is a path of the diagram, and the automatic OK is delivered only directly
// after Starting.
func VerifC11Concurrent() {
	var seq []vS
	id := &componentstatus.InstanceID{}
	rep := NewReporter(
		func(_ *componentstatus.InstanceID, ev *componentstatus.Event) { seq = append(seq, ev.Status()) },
		func(error) {},
	)
	s1 := vS(vNondetInt32("status"))
	vAssume(s1 == vRecov || s1 == vPerm || s1 == vFatal) // the component only reports errors here: every OK is the automatic one
	var wg sync.WaitGroup
	wg.Add(2)
	go func() {
		defer wg.Done()
		rep.ReportStatus(id, componentstatus.NewEvent(vStarting))
		rep.ReportOKIfStarting(id)
		rep.ReportStatus(id, componentstatus.NewEvent(vStopping))
		rep.ReportStatus(id, componentstatus.NewEvent(vStoppedSt))
	}()
	go func() {
		defer wg.Done()
		rep.ReportStatus(id, componentstatus.NewEvent(s1))
	}()
	wg.Wait()
	vc11CheckSeq(seq, "concurrent")
	for i, s := range seq {
		if s == vOK {
			vAssert(i > 0 && seq[i-1] == vStarting, "concurrent/automatic-ok-only-while-starting")
		}
	}
	vReach("end")
}
