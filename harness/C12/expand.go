package PKGNAME

// C12 (expansion / escaping): the real expandValueRecursively + escapeDollarSigns on strings built
// from K pieces (references, escapes, stray syntax characters, arbitrary other bytes), compared
// with a reference expander written from the documented rules (docs/rfcs/env-vars.md):
//   $$        -> one literal $ (what follows is ordinary text)
//   ${NAME} / ${scheme:NAME} -> the provider's value, itself expanded and un-escaped
//   anything else is copied.

import (
	"context"
	"errors"
	"strings"
)

type vc12Provider struct{ calls int }

var vc12Values = map[string]string{
	"A":  "va",
	"B":  "vb",
	"R":  "${A}",   // the value itself contains a reference
	"D":  "x$$y",   // the value contains an escaped dollar
	"C1": "${C2}",  // a two-cycle
	"C2": "${C1}",
	"S":  "${S}", // a cycle of length one: the value is the reference's own text
}

func (p *vc12Provider) Retrieve(_ context.Context, uri string, _ WatcherFunc) (*Retrieved, error) {
	p.calls++
	name := strings.TrimPrefix(uri, "env:")
	v, ok := vc12Values[name]
	if !ok {
		return nil, errors.New("unknown variable")
	}
	return NewRetrieved(v)
}
func (p *vc12Provider) Scheme() string                 { return "env" }
func (p *vc12Provider) Shutdown(context.Context) error { return nil }

var errVc12Cycle = errors.New("cycle")

// scenario classification of the top-level input (only used to make assertion labels specific)
type vc12Class struct {
	escaped []string // names of escaped references $${X}, in order of appearance
	real    []string // names of real references, in order of appearance
	escapedBeforeReal bool
}

func (c *vc12Class) label() string {
	if len(c.escaped) == 0 {
		return "no-escaped-reference"
	}
	if len(c.real) == 0 {
		return "escaped-reference-only"
	}
	l := "escaped-reference"
	dup := false
	for _, e := range c.escaped {
		for _, r := range c.real {
			if e == r {
				dup = true
			}
		}
	}
	if dup {
		l += "+same-reference-also-unescaped"
	}
	if c.escapedBeforeReal {
		l += "+before-another-reference"
	}
	if !dup && !c.escapedBeforeReal {
		l += "+after-the-references"
	}
	return l
}

var vc12Cls *vc12Class

// vc12Reference expands s by the documented rules; depth guards the cycle.
func vc12Reference(s string, depth int) (string, error) {
	if depth > 20 {
		return "", errVc12Cycle
	}
	var out strings.Builder
	for i := 0; i < len(s); {
		switch {
		case strings.HasPrefix(s[i:], "$$"):
			out.WriteByte('$')
			i += 2
			if depth == 0 && strings.HasPrefix(s[i:], "{") {
				if j := strings.IndexByte(s[i:], '}'); j > 0 {
					vc12Cls.escaped = append(vc12Cls.escaped, s[i+1:i+j])
				}
			}
		case strings.HasPrefix(s[i:], "${"):
			j := strings.IndexByte(s[i:], '}')
			if j < 0 {
				out.WriteString(s[i:])
				i = len(s)
				break
			}
			name := strings.TrimPrefix(s[i+2:i+j], "env:")
			if depth == 0 {
				vc12Cls.real = append(vc12Cls.real, name)
				if len(vc12Cls.escaped) > 0 {
					vc12Cls.escapedBeforeReal = true
				}
			}
			v, ok := vc12Values[name]
			if !ok {
				return "", errors.New("unknown variable")
			}
			ev, err := vc12Reference(v, depth+1)
			if err != nil {
				return "", err
			}
			out.WriteString(ev)
			i += j + 1
		default:
			out.WriteByte(s[i])
			i++
		}
	}
	return out.String(), nil
}

func VerifC12Expand() {
	K := vParam("pieces")
	pieces := []string{"${A}", "${B}", "$$", "$", "", "${R}", "${env:A}", "}", "{A}", "${D}", "${C1}", "${S}"}
	var sb strings.Builder
	usedSym := false
	for i := 0; i < K; i++ {
		k := vChoice("piece", len(pieces))
		if k == 4 {
			// an arbitrary byte that is not one of the syntax characters
			b := vNondetByte("filler")
			vAssume(b != '$' && b != '{' && b != '}' && b != ':' && b < 0x80 && b >= 0x20)
			sb.WriteByte(b)
			usedSym = true
			continue
		}
		sb.WriteString(pieces[k])
	}
	input := sb.String()
	prov := &vc12Provider{}
	mr := &Resolver{providers: map[string]Provider{"env": prov}, defaultScheme: "env"}
	got, err := mr.expandValueRecursively(context.Background(), input)
	vc12Cls = &vc12Class{}
	want, werr := vc12Reference(input, 0)
	cls := vc12Cls.label()
	if werr != nil {
		// unknown variable cannot happen with these pieces; a cycle must be reported, never loop or panic
		vAssert(err != nil, "expand/cycle-is-reported-as-an-error/"+cls)
		vReach("cycle")
		return
	}
	vAssert(err == nil, "expand/valid-input-expands-without-error/"+cls)
	if err != nil {
		return
	}
	res := escapeDollarSigns(got)
	var s string
	switch v := res.(type) {
	case string:
		s = v
	case expandedValue:
		// a whole-value reference: its string form is what a string field receives
		s = v.Original
		if vs, ok := v.Value.(string); ok {
			vAssert(vs == v.Original, "expand/whole-value-reference-string-forms-agree")
		}
	default:
		vAssert(false, "expand/unexpected-result-type")
		return
	}
	if !strings.Contains(input, "${") && !strings.Contains(input, "$$") {
		vAssert(s == input, "expand/text-without-reference-or-escape-is-unchanged")
		vAssert(prov.calls == 0, "expand/no-provider-call-without-reference")
	}
	vAssert(s == want, "expand/result-equals-documented-expansion/"+cls)
	if usedSym {
		vReach("with-arbitrary-byte")
	}
	vReach("end")
}

// VerifC12Containers: lists and maps of strings: every element is expanded as if it stood alone
// (recursively, until nothing changes), whatever its position.
func VerifC12Containers() {
	pieces := []string{"${A}", "${R}", "x", "${B}", "${env:A}"}
	mk := func() string {
		var sb strings.Builder
		for i := 0; i < 2; i++ {
			sb.WriteString(pieces[vChoice("piece", len(pieces))])
		}
		return sb.String()
	}
	e0, e1 := mk(), mk()
	var input any
	isList := vChoice("container", 2) == 0
	if isList {
		input = []any{e0, e1}
	} else {
		input = map[string]any{"k0": e0, "k1": []any{e1}}
	}
	mr := &Resolver{providers: map[string]Provider{"env": &vc12Provider{}}, defaultScheme: "env"}
	got, err := mr.expandValueRecursively(context.Background(), input)
	vAssert(err == nil, "containers/expands-without-error")
	if err != nil {
		return
	}
	res := escapeDollarSigns(got)
	str := func(v any) string {
		switch x := v.(type) {
		case string:
			return x
		case expandedValue:
			return x.Original
		}
		return "<?>"
	}
	vc12Cls = &vc12Class{}
	w0, _ := vc12Reference(e0, 0)
	w1, _ := vc12Reference(e1, 0)
	if isList {
		l, ok := res.([]any)
		vAssert(ok && len(l) == 2, "containers/list-shape-kept")
		if ok && len(l) == 2 {
			vAssert(str(l[0]) == w0, "containers/first-list-element-fully-expanded")
			vAssert(str(l[1]) == w1, "containers/last-list-element-fully-expanded")
		}
	} else {
		m, ok := res.(map[string]any)
		vAssert(ok && len(m) == 2, "containers/map-shape-kept")
		if ok {
			vAssert(str(m["k0"]) == w0, "containers/map-value-fully-expanded")
			inner, ok2 := m["k1"].([]any)
			vAssert(ok2 && len(inner) == 1 && str(inner[0]) == w1, "containers/nested-list-element-fully-expanded")
		}
	}
	vReach("end")
}
