package PKGNAME

// C12 (merge): Conf.Merge of two source maps built from exhaustively chosen shapes (keys from a small
// set, values: symbolic scalar, list, nested map, nil) against the documented rule: the recursive
// right-biased merge — a later source replaces scalars, lists and nils, merges maps key by key,
// untouched keys survive, merging an empty source changes nothing.

import (
	"context"
	"errors"
	"strings"
)

func vc12Value(tag string, depth int) any {
	nk := 4
	if depth == 0 {
		nk = 3
	}
	switch vChoice(tag+"-kind", nk) {
	case 0:
		return int(vNondetInt32(tag + "-scalar"))
	case 1:
		return []any{int(vNondetInt32(tag + "-elem")), "x"}
	case 2:
		return nil
	default:
		return vc12Map(tag+"-sub", depth-1)
	}
}

func vc12Map(tag string, depth int) map[string]any {
	m := map[string]any{}
	keys := []string{"a", "b"}
	if depth < vParam("depth") && vParam("nestedKeys") == 1 {
		keys = keys[:1] // quick tier: nested maps hold one key
	}
	for _, k := range keys {
		if vChoice(tag+"-has-"+k, 2) == 1 {
			m[k] = vc12Value(tag+"-"+k, depth)
		}
	}
	return m
}

// vc12RefMerge is the documented rule.
func vc12RefMerge(base, over map[string]any) map[string]any {
	out := map[string]any{}
	for k, v := range base {
		out[k] = v
	}
	for k, v := range over {
		bm, bok := out[k].(map[string]any)
		om, ook := v.(map[string]any)
		if bok && ook {
			out[k] = vc12RefMerge(bm, om)
		} else {
			out[k] = v
		}
	}
	return out
}

func vc12Same(a, b any, lbl string) {
	switch x := a.(type) {
	case map[string]any:
		y, ok := b.(map[string]any)
		vAssert(ok && len(x) == len(y), lbl+"/same-keys")
		if ok {
			for _, k := range []string{"a", "b"} { // fixed order: the event sequence must not depend on map iteration order
				v, in := x[k]
				if !in {
					continue
				}
				w, has := y[k]
				vAssert(has, lbl+"/key-present")
				if has {
					vc12Same(v, w, lbl)
				}
			}
		}
	case []any:
		y, ok := b.([]any)
		vAssert(ok && len(x) == len(y), lbl+"/list-replaced-as-a-whole")
		if ok && len(x) == len(y) {
			for i := range x {
				vc12Same(x[i], y[i], lbl)
			}
		}
	case nil:
		vAssert(b == nil, lbl+"/nil-value")
	default:
		vAssert(a == b, lbl+"/scalar-value")
	}
}

func VerifC12Merge() {
	depth := vParam("depth")
	m1, m2 := vc12Map("first", depth), vc12Map("second", depth)
	want := vc12RefMerge(m1, m2)
	conf := NewFromStringMap(m1)
	vAssert(conf.Merge(NewFromStringMap(m2)) == nil, "merge/no-error")
	got := conf.ToStringMap()
	vc12Same(want, got, "merge/result-is-the-recursive-right-biased-merge")
	vc12Same(got, want, "merge/result-has-nothing-else")
	if len(m2) == 0 {
		vc12Same(m1, got, "merge/empty-source-changes-nothing")
		vReach("empty-second")
	}
	vReach("end")
}

type vc12MapProvider struct{ maps map[string]map[string]any }

func (p *vc12MapProvider) Retrieve(_ context.Context, uri string, _ WatcherFunc) (*Retrieved, error) {
	m, ok := p.maps[strings.TrimPrefix(uri, "m:")]
	if !ok {
		return nil, errors.New("unknown source")
	}
	return NewRetrieved(m)
}
func (p *vc12MapProvider) Scheme() string                 { return "m" }
func (p *vc12MapProvider) Shutdown(context.Context) error { return nil }

// VerifC12Resolve: Resolver.Resolve over a list of two or three sources: the result is the
// right-biased merge of the sources in order, with the references inside the merged values expanded
// afterwards (so a later source can override a value that contained a reference, and vice versa).
func VerifC12Resolve() {
	n := 2 + vChoice("sources", vParam("maxSources")-1)
	prov := &vc12MapProvider{maps: map[string]map[string]any{}}
	mr := &Resolver{providers: map[string]Provider{"m": prov, "env": &vc12Provider{}}, defaultScheme: "env"}
	want := map[string]any{}
	for i := 0; i < n; i++ {
		name := string(rune('0' + i))
		m := map[string]any{}
		for _, k := range []string{"a", "b"} {
			switch vChoice("source-"+name+"-"+k, 5) {
			case 1:
				m[k] = int(vNondetInt32("scalar"))
			case 2:
				m[k] = "pre-${A}-post" // a reference embedded in a string
			case 3:
				m[k] = map[string]any{"n": "${B}"} // a whole-value reference in a nested map
			case 4:
				m[k] = map[string]any{"o": int(vNondetInt32("scalar"))}
			}
		}
		prov.maps[name] = m
		mr.uris = append(mr.uris, location{scheme: "m", opaqueValue: name})
		want = vc12RefMerge(want, m)
	}
	conf, err := mr.Resolve(context.Background())
	vAssert(err == nil && conf != nil, "resolve/sources-resolve-without-error")
	if err != nil || conf == nil {
		return
	}
	got := conf.ToStringMap()
	// expected: the merge, then expansion of what is left in it
	var expand func(v any) any
	expand = func(v any) any {
		switch x := v.(type) {
		case string:
			s, _ := vc12Reference(x, 1)
			return s
		case map[string]any:
			out := map[string]any{}
			for _, k := range []string{"n", "o"} {
				if e, ok := x[k]; ok {
					out[k] = expand(e)
				}
			}
			return out
		}
		return v
	}
	for _, k := range []string{"a", "b"} {
		w, in := want[k]
		g, has := got[k]
		vAssert(in == has, "resolve/result-has-exactly-the-merged-keys")
		if in && has {
			vc12SameNO(expand(w), g, "resolve/value-is-the-last-writers-merged-and-expanded-value")
		}
	}
	vReach("end")
}

// vc12SameNO compares trees whose nested maps use the keys n / o.
func vc12SameNO(a, b any, lbl string) {
	switch x := a.(type) {
	case map[string]any:
		y, ok := b.(map[string]any)
		vAssert(ok && len(x) == len(y), lbl+"/same-keys")
		if ok {
			for _, k := range []string{"n", "o"} {
				v, in := x[k]
				if !in {
					continue
				}
				w, has := y[k]
				vAssert(has, lbl+"/key-present")
				if has {
					vc12SameNO(v, w, lbl)
				}
			}
		}
	default:
		vAssert(a == b, lbl+"/scalar-value")
	}
}
