package PKGNAME

// C13 (structural validation rules): PipelineConfig.Validate and pipelines.Config.Validate: a
// pipeline without receivers or without exporters, or listing a processor twice, is rejected;
// processor identifiers have symbolic names so that "twice" is decided by the solver.

import (
	"go.opentelemetry.io/collector/component"
	"go.opentelemetry.io/collector/pipeline"
)

func vc13pID(tag string) component.ID {
	n := vNondetByte(tag)
	vAssume(n >= 'a' && n <= 'd')
	return component.NewIDWithName(component.MustNewType("t"), string([]byte{n}))
}

func VerifC13Pipeline() {
	p := &PipelineConfig{}
	if vChoice("lists-written-as-empty-rather-than-omitted", 2) == 1 {
		// `exporters: []` decodes to an empty non-nil list, an omitted key to nil: both are "no exporters"
		p.Receivers, p.Exporters, p.Processors = []component.ID{}, []component.ID{}, []component.ID{}
	}
	nr, ne, np := vChoice("receivers", 3), vChoice("exporters", 3), vChoice("processors", vParam("maxProcessors")+1)
	for i := 0; i < nr; i++ {
		p.Receivers = append(p.Receivers, vc13pID("receiver"))
	}
	for i := 0; i < ne; i++ {
		p.Exporters = append(p.Exporters, vc13pID("exporter"))
	}
	dup := false
	for i := 0; i < np; i++ {
		id := vc13pID("processor")
		for _, q := range p.Processors {
			if q == id {
				dup = true
			}
		}
		p.Processors = append(p.Processors, id)
	}
	err := p.Validate()
	switch {
	case nr == 0:
		vAssert(err != nil, "pipeline/without-receivers-is-rejected")
	case ne == 0:
		vAssert(err != nil, "pipeline/without-exporters-is-rejected")
	case dup:
		vAssert(err != nil, "pipeline/processor-listed-twice-is-rejected")
		vReach("duplicate")
	default:
		vAssert(err == nil, "pipeline/well-formed-pipeline-is-accepted")
		vReach("accepted")
	}
	// the set of pipelines
	cfg := Config{}
	vAssert(cfg.Validate() != nil, "pipelines/service-without-pipelines-is-rejected")
	sig := []pipeline.Signal{pipeline.SignalTraces, pipeline.SignalMetrics, pipeline.SignalLogs}[vChoice("signal", 3)]
	cfg[pipeline.NewID(sig)] = p
	vAssert(cfg.Validate() == nil, "pipelines/known-signal-is-accepted")
	vReach("end")
}
