package PKGNAME

// C13 (nested validation rules, the TLS version range of every TLS block): for every combination of
// written / unwritten min_version and max_version, Validate rejects exactly the configurations that
// name an unknown version or whose effective range is empty — the effective minimum being the
// written one or the default (TLS 1.2), the effective maximum the written one or "no upper bound".

func VerifC13TLSVersions() {
	names := []string{"", "1.0", "1.1", "1.2", "1.3", "1.4", "tls1.2"}
	rank := map[string]int{"1.0": 0, "1.1": 1, "1.2": 2, "1.3": 3}
	minV, maxV := names[vChoice("min_version", len(names))], names[vChoice("max_version", len(names))]
	c := Config{MinVersion: minV, MaxVersion: maxV}
	err := c.Validate()
	_, minKnown := rank[minV]
	_, maxKnown := rank[maxV]
	switch {
	case (minV != "" && !minKnown) || (maxV != "" && !maxKnown):
		vAssert(err != nil, "tls/unknown-version-name-is-rejected")
		vReach("unknown")
	default:
		lo := 2 // default minimum: TLS 1.2
		if minV != "" {
			lo = rank[minV]
		}
		empty := maxV != "" && rank[maxV] < lo
		if empty {
			vAssert(err != nil, "tls/empty-version-range-is-rejected")
			vReach("empty-range")
		} else {
			vAssert(err == nil, "tls/usable-version-range-is-accepted")
			vReach("accepted")
		}
	}
	vReach("end")
}
