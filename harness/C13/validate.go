package PKGNAME

// C13 (structural validation rules, the part of the property that is plain code over maps):
// otelcol.Config.Validate on configurations built from component identifiers whose names are
// symbolic bytes — so every equality pattern between defined and referenced identifiers is decided
// by the solver — compared with the rules written from the documentation: a configuration is
// rejected iff it defines no receiver or no exporter, gives a connector the identifier of a receiver
// or an exporter, enables an extension that is not defined, or a pipeline references a receiver /
// processor / exporter that is not defined (connectors count as both receivers and exporters).

import (
	"go.opentelemetry.io/collector/component"
	"go.opentelemetry.io/collector/pipeline"
	"go.opentelemetry.io/collector/service/pipelines"
)

type vc13Cfg struct{}

func vc13ID(tag string) component.ID {
	n := vNondetByte(tag)
	vAssume(n >= 'a' && n <= 'c') // three possible names are enough for every equality pattern of the bound
	return component.NewIDWithName(component.MustNewType("t"), string([]byte{n}))
}

func vc13Section(tag string, max int) map[component.ID]component.Config {
	m := map[component.ID]component.Config{}
	n := vChoice(tag+"-entries", max+1)
	for i := 0; i < n; i++ {
		m[vc13ID(tag)] = &vc13Cfg{}
	}
	return m
}

func vc13Refs(tag string, min, max int) []component.ID {
	var out []component.ID
	n := min + vChoice(tag+"-refs", max-min+1)
	for i := 0; i < n; i++ {
		out = append(out, vc13ID(tag+"-ref"))
	}
	return out
}

func VerifC13Validate() {
	cfg := &Config{
		Receivers:  vc13Section("receivers", 2),
		Exporters:  vc13Section("exporters", vParam("maxExporters")),
		Processors: vc13Section("processors", 1),
		Connectors: vc13Section("connectors", 1),
		Extensions: vc13Section("extensions", 1),
	}
	cfg.Service.Extensions = vc13Refs("service-extensions", 0, 1)
	cfg.Service.Pipelines = pipelines.Config{}
	np := 1 + vChoice("pipelines", vParam("maxPipelines"))
	for i := 0; i < np; i++ {
		pid := pipeline.NewIDWithName(pipeline.SignalTraces, string(rune('p'+i)))
		cfg.Service.Pipelines[pid] = &pipelines.PipelineConfig{
			Receivers:  vc13Refs("pipeline-receivers", 1, 2),
			Processors: vc13Refs("pipeline-processors", 0, 1),
			Exporters:  vc13Refs("pipeline-exporters", 1, vParam("maxExporters")),
		}
	}

	// the documented rules
	has := func(m map[component.ID]component.Config, id component.ID) bool { _, ok := m[id]; return ok }
	reason := ""
	note := func(r string) {
		if reason == "" {
			reason = r
		}
	}
	if len(cfg.Receivers) == 0 {
		note("no-receiver-defined")
	}
	if len(cfg.Exporters) == 0 {
		note("no-exporter-defined")
	}
	for id := range cfg.Connectors {
		if has(cfg.Exporters, id) || has(cfg.Receivers, id) {
			note("connector-shares-an-identifier")
		}
	}
	for _, ref := range cfg.Service.Extensions {
		if !has(cfg.Extensions, ref) {
			note("undefined-extension-enabled")
		}
	}
	for _, p := range cfg.Service.Pipelines {
		for _, ref := range p.Receivers {
			if !has(cfg.Receivers, ref) && !has(cfg.Connectors, ref) {
				note("pipeline-references-undefined-receiver")
			}
		}
		for _, ref := range p.Processors {
			if !has(cfg.Processors, ref) {
				note("pipeline-references-undefined-processor")
			}
		}
		for _, ref := range p.Exporters {
			if !has(cfg.Exporters, ref) && !has(cfg.Connectors, ref) {
				note("pipeline-references-undefined-exporter")
			}
		}
	}
	err := cfg.Validate()
	if reason != "" {
		vAssert(err != nil, "validate/mistake-is-rejected-not-ignored/"+reason)
		vReach("rejected")
	} else {
		vAssert(err == nil, "validate/configuration-without-mistake-is-accepted")
		vReach("accepted")
	}
	vReach("end")
}
