package PKGNAME

// C14: every rendering of an opaque string that goes through its methods or through fmt's method
// dispatch shows the fixed marker, for every secret (bytes symbolic), also after a caller scribbled
// over a byte slice a previous rendering returned.  The real fmt code is interpreted.

import (
	"fmt"
)

func VerifC14Renderings() {
	n := vChoice("secret-len", 4)
	secret := String(vNondetString("secret", n))
	const marker = "[REDACTED]"

	check := func(round string) {
		vAssert(secret.String() == marker, "opaque/String-is-the-marker/"+round)
		vAssert(secret.GoString() == `"[REDACTED]"`, "opaque/GoString-is-the-quoted-marker/"+round)
		t, err := secret.MarshalText()
		vAssert(err == nil && string(t) == marker, "opaque/MarshalText-is-the-marker/"+round)
		b, err := secret.MarshalBinary()
		vAssert(err == nil && string(b) == marker, "opaque/MarshalBinary-is-the-marker/"+round)
		// fmt verbs and flags that fmt resolves through Stringer / GoStringer
		vAssert(fmt.Sprintf("%v", secret) == marker, "opaque/fmt-%v/"+round)
		vAssert(fmt.Sprintf("%s", secret) == marker, "opaque/fmt-%s/"+round)
		vAssert(fmt.Sprintf("%+v", secret) == marker, "opaque/fmt-%+v/"+round)
		vAssert(fmt.Sprintf("%#v", secret) == `"[REDACTED]"`, "opaque/fmt-%#v/"+round)
		vAssert(fmt.Sprintf("%q", secret) == `"[REDACTED]"`, "opaque/fmt-%q/"+round)
		vAssert(fmt.Sprintf("%x", secret) == "5b52454441435445445d", "opaque/fmt-%x/"+round)
		vAssert(fmt.Sprintf("%X", secret) == "5B52454441435445445D", "opaque/fmt-%X/"+round)
		vAssert(fmt.Sprintf("%12s|", secret) == "  [REDACTED]|", "opaque/fmt-width/"+round)
		vAssert(fmt.Sprintf("%-12s|", secret) == "[REDACTED]  |", "opaque/fmt-left-align/"+round)
		vAssert(fmt.Sprintf("%.3s", secret) == "[RE", "opaque/fmt-precision/"+round)
		vAssert(fmt.Sprintf("k=%v n=%d", secret, 7) == "k="+marker+" n=7", "opaque/fmt-with-other-operands/"+round)
		vAssert(fmt.Errorf("bad credentials: %v", secret).Error() == "bad credentials: "+marker, "opaque/fmt-Errorf/"+round)
		// scribble over what we were handed: the marker must stay fixed
		for i := range t {
			t[i] = 'S'
		}
		for i := range b {
			b[i] = 'S'
		}
	}
	check("first")
	check("after-caller-mutated-returned-bytes")
	// the explicit conversion still returns the secret for the code that needs it
	plain := string(secret)
	vAssert(len(plain) == n, "opaque/explicit-conversion-keeps-the-secret-length")
	vAssert(String(plain) == secret, "opaque/explicit-conversion-returns-the-secret")
	vReach("end")
}

// VerifC14AllVerbs: every fmt verb x flag combination — including the verbs that are invalid for
// strings, which fmt renders through its reflection-based "bad verb" path without consulting
// String() — and Sprint/Sprintln/Errorf wrapping: the rendering of an opaque value must not depend
// on the secret it holds.  Oracle: it equals the rendering of an opaque value holding a fixed,
// different secret.
func VerifC14AllVerbs() {
	n := 1 + vChoice("secret-len", 3)
	secret := String(vNondetString("secret", n))
	ref := String("a-different-secret")
	verbs := "vsqxXdtcUeEfFgGboOT" // %p: see the end
	flags := []string{"", "+", "#", "-8", " ", "08", ".2", "+#"}
	for _, fl := range flags {
		for i := 0; i < len(verbs); i++ {
			f := "%" + fl + verbs[i:i+1]
			vAssert(fmt.Sprintf(f, secret) == fmt.Sprintf(f, ref), "opaque/rendering-independent-of-the-secret/verb-%"+verbs[i:i+1])
		}
	}
	vAssert(fmt.Sprint(secret) == fmt.Sprint(ref), "opaque/rendering-independent-of-the-secret/Sprint")
	vAssert(fmt.Sprint("token", secret, 3) == fmt.Sprint("token", ref, 3), "opaque/rendering-independent-of-the-secret/Sprint-with-other-operands")
	vAssert(fmt.Sprintln(secret) == fmt.Sprintln(ref), "opaque/rendering-independent-of-the-secret/Sprintln")
	vAssert(fmt.Errorf("auth %w failed for %v", fmt.Errorf("inner %s", secret), secret).Error() == fmt.Errorf("auth %w failed for %v", fmt.Errorf("inner %s", ref), ref).Error(), "opaque/rendering-independent-of-the-secret/Errorf-wrapping")
	// pointer to an opaque value: %v of a pointer prints an address, %s/%d go through the bad-verb path
	vAssert(fmt.Sprintf("%s|%d", &secret, &secret) != "", "opaque/pointer-rendering-terminates")
	vReach("end")
	// %p last: fmt handles it before it looks for any method of the operand (Formatter included), so
	// for a non-pointer operand it always takes the bad-verb path, which prints the underlying string
	for _, fl := range flags {
		f := "%" + fl + "p"
		vAssert(fmt.Sprintf(f, secret) == fmt.Sprintf(f, ref), "opaque/rendering-independent-of-the-secret/verb-%p")
	}
}
