package PKGNAME

// C15 (server side of the hop, authentication): a request the configured authenticator rejects is
// answered 401 through the default or the custom error handler and NEVER reaches the wrapped
// handler (the sender is told "unauthenticated", so nothing may be accepted on its behalf); an
// accepted request reaches it exactly once with the authenticator's context; query parameters
// named in the settings are offered to the authenticator.

import (
	"context"
	"errors"
	"net/http"
	"net/url"

	"go.opentelemetry.io/collector/config/confighttp/internal"
)

type vc15AuthServer struct {
	fail   bool
	nilCtx bool
	seen   map[string][]string
}

type vc15CtxKey struct{}

func (a *vc15AuthServer) Authenticate(ctx context.Context, sources map[string][]string) (context.Context, error) {
	a.seen = sources
	if a.fail {
		if a.nilCtx {
			return nil, errors.New("bad token")
		}
		return ctx, errors.New("bad token")
	}
	return context.WithValue(ctx, vc15CtxKey{}, "authenticated"), nil
}

type vc15AuthResp struct {
	h      http.Header
	status int
}

func (w *vc15AuthResp) Header() http.Header { return w.h }
func (w *vc15AuthResp) WriteHeader(s int) {
	if w.status == 0 {
		w.status = s
	}
}
func (w *vc15AuthResp) Write(p []byte) (int, error) {
	if w.status == 0 {
		w.status = 200
	}
	return len(p), nil
}

func VerifC15AuthInterceptor() {
	srv := &vc15AuthServer{fail: vChoice("authentication", 2) == 1, nilCtx: vChoice("rejecting-authenticator-returns-nil-context", 2) == 1}
	opts := &internal.ToServerOptions{}
	custom := vChoice("custom-error-handler", 2) == 1
	customCalls := 0
	if custom {
		opts.ErrHandler = func(w http.ResponseWriter, _ *http.Request, _ string, code int) {
			customCalls++
			w.WriteHeader(code)
		}
	}
	nextCalls := 0
	authenticated := false
	next := http.HandlerFunc(func(w http.ResponseWriter, r *http.Request) {
		nextCalls++
		authenticated = r.Context().Value(vc15CtxKey{}) == "authenticated"
		w.WriteHeader(http.StatusOK)
	})
	h := authInterceptor(next, srv, []string{"token"}, opts)
	req := &http.Request{Method: http.MethodPost, Header: http.Header{"Authorization": []string{"Bearer x"}}, URL: &url.URL{Path: "/v1/traces", RawQuery: "token=q1"}}
	req = req.WithContext(context.Background())
	resp := &vc15AuthResp{h: http.Header{}}
	h.ServeHTTP(resp, req)
	vAssert(len(srv.seen["Authorization"]) == 1 && len(srv.seen["token"]) == 1 && srv.seen["token"][0] == "q1", "auth/authenticator-sees-headers-and-the-named-query-parameters")
	if srv.fail {
		vAssert(nextCalls == 0, "auth/rejected-request-never-reaches-the-handler")
		vAssert(resp.status == http.StatusUnauthorized, "auth/rejected-request-is-answered-401")
		vAssert(custom == (customCalls == 1), "auth/custom-error-handler-used-iff-configured")
		vReach("rejected")
	} else {
		vAssert(nextCalls == 1 && authenticated, "auth/accepted-request-reaches-the-handler-once-with-the-authenticators-context")
		vAssert(resp.status == http.StatusOK && customCalls == 0, "auth/accepted-request-gets-the-handlers-answer")
		vReach("accepted")
	}
	vReach("end")
}
