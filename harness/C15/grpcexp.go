package PKGNAME

// C15 (gRPC exporter side): classification of what the receiver answered, per the OTLP
// specification: permanent <=> non-retryable; the throttling delay asked for is honoured.

import (
	"errors"
	"time"

	"google.golang.org/genproto/googleapis/rpc/errdetails"
	"google.golang.org/grpc/codes"
	"google.golang.org/grpc/status"
	"google.golang.org/protobuf/types/known/durationpb"

	"go.opentelemetry.io/collector/consumer/consumererror"
)

var vc15RetryInfo *errdetails.RetryInfo

// vc15GetRetryInfo replaces statusutil.GetRetryInfo (status.Details() unpacks protobuf Any by reflection).
func vc15GetRetryInfo(*status.Status) *errdetails.RetryInfo { return vc15RetryInfo }

// vc15ThrottleDelay reads the delay of an exporterhelper throttle-retry error (0 if it is not one).
func vc15ThrottleDelay(err error) time.Duration {
	if d, ok := vFieldInt(err, "delay"); ok {
		return time.Duration(d)
	}
	return 0
}

func VerifC15GrpcExporter() {
	code := codes.Code(vNondetUint32("code"))
	vc15RetryInfo = nil
	var delay time.Duration
	hasInfo := vChoice("retry-info", 2) == 1
	if hasInfo {
		secs := vNondetInt64("retry_secs")
		nanos := vNondetInt32("retry_nanos")
		vAssume(secs >= 0 && secs <= 1000000 && nanos >= 0 && nanos < 1000000000)
		vc15RetryInfo = &errdetails.RetryInfo{RetryDelay: &durationpb.Duration{Seconds: secs, Nanos: nanos}}
		delay = time.Duration(secs)*time.Second + time.Duration(nanos)
	}
	in := status.New(code, "from receiver").Err()
	out := processError(in)
	if code == codes.OK {
		vAssert(out == nil, "grpc-exporter/ok-is-success")
		return
	}
	vAssert(out != nil, "grpc-exporter/failure-stays-a-failure")
	retryable := false
	switch code {
	case codes.Canceled, codes.DeadlineExceeded, codes.Aborted, codes.OutOfRange, codes.Unavailable, codes.DataLoss:
		retryable = true
	case codes.ResourceExhausted:
		retryable = hasInfo // retryable only if the server supplied RetryInfo
	}
	vAssert(consumererror.IsPermanent(out) == !retryable, "grpc-exporter/permanent-iff-spec-non-retryable")
	if retryable {
		got := vc15ThrottleDelay(out)
		if hasInfo && delay != 0 {
			vAssert(got == delay, "grpc-exporter/requested-throttling-delay-is-honoured")
			vReach("throttled")
		} else {
			vAssert(got == 0, "grpc-exporter/no-delay-invented")
		}
	}
	vAssert(errors.Is(out, in) || consumererror.IsPermanent(out), "grpc-exporter/original-error-preserved")
	vReach("end")
}
