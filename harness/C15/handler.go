package PKGNAME

// C15 (OTLP/HTTP receive path): the handlers for the three signals as the receiver registers them.
// The request body is delivered by a reader that may fail at the end of the stream (or on Close);
// the consumer succeeds or fails.  A request whose body could not be read completely is never
// answered with success and never reaches the consumer (its tail is missing: accepting the leading
// part would report success for data that was not delivered); a complete request reaches the
// consumer exactly once and is answered 200 iff the consumer accepted it.

import (
	"context"
	"errors"
	"io"
	"net/http"

	spb "google.golang.org/genproto/googleapis/rpc/status"

	tracenoop "go.opentelemetry.io/otel/trace/noop"

	"go.opentelemetry.io/collector/component"
	"go.opentelemetry.io/collector/consumer"
	"go.opentelemetry.io/collector/consumer/consumererror"
	"go.opentelemetry.io/collector/pdata/plog"
	"go.opentelemetry.io/collector/pdata/plog/plogotlp"
	"go.opentelemetry.io/collector/pdata/pmetric"
	"go.opentelemetry.io/collector/pdata/pmetric/pmetricotlp"
	"go.opentelemetry.io/collector/pdata/ptrace"
	"go.opentelemetry.io/collector/pdata/ptrace/ptraceotlp"
	"go.opentelemetry.io/collector/receiver"
	"go.opentelemetry.io/collector/receiver/otlpreceiver/internal/logs"
	"go.opentelemetry.io/collector/receiver/otlpreceiver/internal/metrics"
	"go.opentelemetry.io/collector/receiver/otlpreceiver/internal/trace"
	"go.opentelemetry.io/collector/receiver/receiverhelper"
)

type vc15Body struct {
	data     []byte
	readErr  error // returned instead of io.EOF once the data is exhausted
	closeErr error
	closed   bool
}

func (b *vc15Body) Read(p []byte) (int, error) {
	if len(b.data) == 0 {
		if b.readErr != nil {
			return 0, b.readErr
		}
		return 0, io.EOF
	}
	n := copy(p, b.data)
	b.data = b.data[n:]
	return n, nil
}

func (b *vc15Body) Close() error { b.closed = true; return b.closeErr }

type vc15Resp struct {
	h      http.Header
	status int
	body   []byte
}

func (w *vc15Resp) Header() http.Header { return w.h }
func (w *vc15Resp) WriteHeader(s int) {
	if w.status == 0 {
		w.status = s
	}
}
func (w *vc15Resp) Write(p []byte) (int, error) {
	if w.status == 0 {
		w.status = 200
	}
	w.body = append(w.body, p...)
	return len(p), nil
}

type vc15Sink struct {
	err   error
	calls int
	items int
}

func (s *vc15Sink) Capabilities() consumer.Capabilities { return consumer.Capabilities{} }
func (s *vc15Sink) ConsumeTraces(_ context.Context, td ptrace.Traces) error {
	s.calls++
	s.items += td.SpanCount()
	return s.err
}
func (s *vc15Sink) ConsumeLogs(_ context.Context, ld plog.Logs) error {
	s.calls++
	s.items += ld.LogRecordCount()
	return s.err
}
func (s *vc15Sink) ConsumeMetrics(_ context.Context, md pmetric.Metrics) error {
	s.calls++
	s.items += md.DataPointCount()
	return s.err
}

func vc15hRetryable(code int) bool { return code == 429 || code == 502 || code == 503 || code == 504 }

// vc15MarshalStatus replaces the encoders' marshalStatus (google.golang.org/protobuf reflection).
func vc15MarshalStatus(*spb.Status) ([]byte, error) { return []byte("status"), nil }

func VerifC15HTTPHandler() {
	obs, err := receiverhelper.NewObsReport(receiverhelper.ObsReportSettings{ReceiverID: component.MustNewID("otlp"), Transport: "http",
		ReceiverCreateSettings: receiver.Settings{ID: component.MustNewID("otlp"), TelemetrySettings: component.TelemetrySettings{MeterProvider: vLedgerProvider{led: vNewLedger()}, TracerProvider: tracenoop.NewTracerProvider()}}})
	vAssert(err == nil, "http-handler/obsreport-created")
	sink := &vc15Sink{}
	switch vChoice("consumer", 3) {
	case 1:
		sink.err = errors.New("try again")
	case 2:
		sink.err = consumererror.NewPermanent(errors.New("rejected"))
	}
	body := &vc15Body{}
	complete := true
	switch vChoice("body-stream", 4) {
	case 1:
		body.readErr, complete = io.ErrUnexpectedEOF, false // the stream ended before the announced / framed end
	case 2:
		body.readErr, complete = errors.New("connection reset"), false
	case 3:
		body.closeErr, complete = errors.New("trailer check failed"), false
	}
	req := &http.Request{Method: http.MethodPost, Header: http.Header{"Content-Type": []string{"application/x-protobuf"}}, Body: body}
	resp := &vc15Resp{h: http.Header{}}
	sig := vChoice("signal", 3)
	// a request may carry envelopes (resource, scope, an empty metric) but no item at all: it is
	// acknowledged with success without being handed to the consumer
	noItems := vChoice("request-without-items", 2) == 1
	switch sig {
	case 0:
		td := ptrace.NewTraces()
		ss := td.ResourceSpans().AppendEmpty().ScopeSpans().AppendEmpty()
		ss.Scope().SetName("scope")
		if !noItems {
			ss.Spans().AppendEmpty().SetName("s")
		}
		body.data, err = ptraceotlp.NewExportRequestFromTraces(td).MarshalProto()
		vAssert(err == nil && len(body.data) > 0, "http-handler/request-encoded")
		handleTraces(resp, req, trace.New(sink, obs))
	case 1:
		ld := plog.NewLogs()
		sl := ld.ResourceLogs().AppendEmpty().ScopeLogs().AppendEmpty()
		sl.Scope().SetName("scope")
		if !noItems {
			sl.LogRecords().AppendEmpty().SetSeverityText("x")
		}
		body.data, err = plogotlp.NewExportRequestFromLogs(ld).MarshalProto()
		vAssert(err == nil && len(body.data) > 0, "http-handler/request-encoded")
		handleLogs(resp, req, logs.New(sink, obs))
	default:
		md := pmetric.NewMetrics()
		g := md.ResourceMetrics().AppendEmpty().ScopeMetrics().AppendEmpty().Metrics().AppendEmpty()
		g.SetName("m")
		dps := g.SetEmptyGauge().DataPoints()
		if !noItems {
			dps.AppendEmpty().SetIntValue(1)
		}
		body.data, err = pmetricotlp.NewExportRequestFromMetrics(md).MarshalProto()
		vAssert(err == nil && len(body.data) > 0, "http-handler/request-encoded")
		handleMetrics(resp, req, metrics.New(sink, obs))
	}
	vAssert(resp.status != 0, "http-handler/a-response-is-always-written")
	if !complete {
		vAssert(sink.calls == 0, "http-handler/incompletely-read-request-never-reaches-the-consumer")
		vAssert(resp.status == http.StatusBadRequest, "http-handler/incompletely-read-request-is-a-400")
		vReach("incomplete")
	} else if noItems {
		vAssert(sink.calls == 0, "http-handler/request-without-items-is-not-handed-to-the-consumer")
		vAssert(resp.status == http.StatusOK, "http-handler/request-without-items-is-acknowledged-with-success")
		vReach("no-items")
	} else {
		vAssert(sink.calls == 1 && sink.items == 1, "http-handler/complete-request-reaches-the-consumer-exactly-once")
		vAssert((resp.status == http.StatusOK) == (sink.err == nil), "http-handler/200-iff-the-consumer-accepted")
		if sink.err != nil {
			vAssert(vc15hRetryable(resp.status) == !consumererror.IsPermanent(sink.err), "http-handler/status-retryable-iff-the-failure-is-not-permanent")
		}
		vReach("complete")
	}
	vReach("end")
}
