package PKGNAME

// C15 (HTTP exporter side): which HTTP response codes are retried, and the gRPC status the response
// is turned into, for every int status code, against the OTLP/HTTP specification table.

import (
	"google.golang.org/grpc/codes"

	"go.opentelemetry.io/collector/internal/statusutil"
)

func VerifC15HTTPExporter() {
	h := vNondetInt("http_status")
	specRetryable := h == 429 || h == 502 || h == 503 || h == 504
	vAssert(isRetryableStatusCode(h) == specRetryable, "http-exporter/retryable-iff-429-502-503-504")
	c := statusutil.NewStatusFromMsgAndHTTPCode("m", h).Code()
	grpcRetryable := c == codes.Canceled || c == codes.DeadlineExceeded || c == codes.Aborted || c == codes.OutOfRange || c == codes.Unavailable || c == codes.DataLoss || c == codes.ResourceExhausted
	vAssert(grpcRetryable == specRetryable, "http-exporter/status-built-from-the-response-keeps-its-retryability")
	vAssert(c != codes.OK, "http-exporter/error-response-never-becomes-ok")
	vReach("end")
}
