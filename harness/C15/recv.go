package PKGNAME

// C15 (receiver side): how a consumer's outcome becomes a gRPC status and an HTTP status code,
// against the OTLP specification's failure tables.  Codes are symbolic over the whole uint32 range.

import (
	"errors"
	"fmt"
	"net/http"

	"google.golang.org/grpc/codes"
	"google.golang.org/grpc/status"

	"go.opentelemetry.io/collector/consumer/consumererror"
)

// OTLP/gRPC: retryable codes (RESOURCE_EXHAUSTED only with RetryInfo; counted retryable here since
// the server-side throttling signal is carried by the status itself).
func vc15GrpcRetryable(c codes.Code) bool {
	switch c {
	case codes.Canceled, codes.DeadlineExceeded, codes.Aborted, codes.OutOfRange, codes.Unavailable, codes.DataLoss, codes.ResourceExhausted:
		return true
	}
	return false
}

// OTLP/HTTP: retryable response codes.
func vc15HTTPRetryable(code int) bool {
	return code == 429 || code == 502 || code == 503 || code == 504
}

func VerifC15RecvStatus() {
	code := codes.Code(vNondetUint32("code"))
	vAssume(code != codes.OK)
	kind := vChoice("consumer-error", 6)
	var err error
	plain := errors.New("consumer failed")
	st := status.New(code, "explicit status")
	switch kind {
	case 0:
		err = plain
	case 1:
		err = consumererror.NewPermanent(plain)
	case 2:
		err = st.Err()
	case 3:
		err = fmt.Errorf("wrapped: %w", st.Err())
	case 4:
		err = consumererror.NewPermanent(st.Err())
	case 5:
		err = fmt.Errorf("outer: %w", fmt.Errorf("inner: %w", plain))
	}
	out := GetStatusFromError(err)
	vAssert(out != nil, "recv/failure-is-reported-as-failure")
	got, ok := status.FromError(out)
	vAssert(ok && got != nil, "recv/result-carries-a-grpc-status")
	switch kind {
	case 2, 3, 4:
		vAssert(got.Code() == code, "recv/explicit-grpc-status-is-reported-with-that-status")
		vReach("explicit")
	case 1:
		vAssert(!vc15GrpcRetryable(got.Code()), "recv/other-permanent-error-gets-a-non-retryable-status")
	case 0, 5:
		vAssert(vc15GrpcRetryable(got.Code()), "recv/other-error-gets-a-retryable-status")
	}
	vAssert(got.Code() != codes.OK, "recv/failure-never-reported-as-ok")
	vReach("end")
}

// The HTTP status chosen for a gRPC status keeps its meaning: a client following the OTLP/HTTP
// table retries exactly the failures a gRPC client would retry.
func VerifC15RecvHTTP() {
	code := codes.Code(vNondetUint32("code"))
	vAssume(code != codes.OK)
	h := GetHTTPStatusCodeFromStatus(status.New(code, "m"))
	vAssert(h >= 400 && h <= 599, "recv-http/failure-is-a-4xx-or-5xx")
	vAssert(vc15HTTPRetryable(h) == vc15GrpcRetryable(code), "recv-http/http-status-retryable-iff-grpc-code-retryable")
	if code == codes.ResourceExhausted {
		vAssert(h == http.StatusTooManyRequests, "recv-http/resource-exhausted-is-429")
	}
	vReach("end")
}
