package PKGNAME

// C15 (OTLP/HTTP receive path, throttling): when the consumer's failure carries a retry delay
// (RetryInfo) and the HTTP status sent is one on which an OTLP/HTTP client looks for it (429, 503 —
// whatever gRPC code it stands for), the response carries Retry-After with that delay in seconds;
// without RetryInfo, or on any other status, there is no Retry-After.  The gRPC code is symbolic.

import (
	"net/http"
	"time"

	"google.golang.org/genproto/googleapis/rpc/errdetails"
	"google.golang.org/grpc/codes"
	"google.golang.org/grpc/status"
	"google.golang.org/protobuf/types/known/durationpb"

	"go.opentelemetry.io/collector/receiver/otlpreceiver/internal/errors"
)

var vc15ThrottleInfo *errdetails.RetryInfo

// vc15ThrottleRetryInfo replaces statusutil.GetRetryInfo (status.Details() unpacks protobuf Any by reflection).
func vc15ThrottleRetryInfo(*status.Status) *errdetails.RetryInfo { return vc15ThrottleInfo }

func VerifC15HTTPThrottle() {
	code := codes.Code(vNondetUint32("code"))
	vAssume(code != codes.OK)
	st := status.New(code, "m")
	hasInfo := vNondetBool("failure-carries-a-retry-delay")
	delays := []int64{0, 1, 7, 3600}
	secs := delays[vChoice("delay", len(delays))]
	texts := []string{"0", "1", "7", "3600"}
	want := ""
	vc15ThrottleInfo = nil
	if hasInfo {
		vc15ThrottleInfo = &errdetails.RetryInfo{RetryDelay: durationpb.New(time.Duration(secs) * time.Second)}
	}
	httpStatus := errors.GetHTTPStatusCodeFromStatus(st)
	if hasInfo && (httpStatus == http.StatusTooManyRequests || httpStatus == http.StatusServiceUnavailable) {
		for i, d := range delays {
			if d == secs {
				want = texts[i]
			}
		}
		vReach("throttled")
	}
	w := &vc15Resp{h: http.Header{}}
	writeStatusResponse(w, pbEncoder, httpStatus, st)
	vAssert(w.status == httpStatus, "http-throttle/status-written-as-chosen")
	got := w.h.Get("Retry-After")
	if want != "" {
		vAssert(got == want, "http-throttle/retry-after-carries-the-requested-delay-on-429-and-503")
	} else {
		vAssert(got == "", "http-throttle/no-retry-after-without-a-requested-delay")
	}
	vReach("end")
}
