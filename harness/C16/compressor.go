package PKGNAME

// C16, client side: the compressor handed to the round tripper.  Two requests whose compression
// overlaps in time must never write through the same compressing writer (otherwise their bytes mix
// and no handler reads "exactly the bytes the client was given"); the level the writer is built with
// is the configured one for every level the settings accept.

import (
	"compress/gzip"
	"compress/zlib"

	"go.opentelemetry.io/collector/config/configcompression"
)

func VerifC16CompressorPool() {
	types := []configcompression.Type{configcompression.TypeGzip, configcompression.TypeZlib, configcompression.TypeDeflate, configcompression.TypeSnappy, configcompression.TypeLz4}
	if vParam("zstd") == 1 {
		types = append(types, configcompression.TypeZstd)
	}
	ti := vChoice("algorithm", len(types))
	ct := types[ti]
	lvl := vNondetInt("level")
	params := configcompression.CompressionParams{Level: configcompression.Level(lvl)}
	valid := ct.ValidateParams(params) == nil
	vAssume(valid)
	switch ct {
	case configcompression.TypeGzip, configcompression.TypeZlib, configcompression.TypeDeflate:
		lvl = vConcretize(lvl)
		params.Level = configcompression.Level(lvl)
	}
	f, err := newWriteCloserResetFunc(ct, params)
	vAssert(err == nil && f != nil, "compressor/factory-for-every-supported-algorithm-and-valid-level/"+string(ct))
	if err != nil || f == nil {
		return
	}
	w1, w2 := f(), f()
	vAssert(w1 != nil && w2 != nil, "compressor/factory-builds-a-writer/"+string(ct))
	vAssert(w1 != w2, "compressor/two-in-flight-requests-never-share-a-writer/"+string(ct))
	// the pool as the round tripper uses it: two Gets without a Put in between (overlapping requests)
	c, err := newCompressor(ct, params)
	vAssert(err == nil && c != nil, "compressor/pool-for-every-supported-algorithm/"+string(ct))
	if err != nil || c == nil {
		return
	}
	a := c.pool.Get().(writeCloserReset)
	b := c.pool.Get().(writeCloserReset)
	vAssert(a != b, "compressor/pool-hands-overlapping-requests-distinct-writers/"+string(ct))
	c.pool.Put(a)
	c.pool.Put(b)
	// the writer honours the configured level: building one directly with that level must succeed too
	switch ct {
	case configcompression.TypeGzip:
		_, e := gzip.NewWriterLevel(nil, lvl)
		vAssert(e == nil, "compressor/valid-gzip-level-is-accepted-by-the-codec")
	case configcompression.TypeZlib, configcompression.TypeDeflate:
		_, e := zlib.NewWriterLevel(nil, lvl)
		vAssert(e == nil, "compressor/valid-zlib-level-is-accepted-by-the-codec")
	}
	vReach("end")
}
