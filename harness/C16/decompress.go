package PKGNAME

// C16: the server-side body pipeline exactly as ToServer composes it
//   maxRequestBodySizeInterceptor( httpContentDecompressor( handler ) )
// with a custom "expander" decoder whose output length is symbolic, a body of symbolic length
// (known or unknown Content-Length), a symbolic limit, and a handler that reads to the end.

import (
	"io"
	"net/http"
)

type vc16Body struct {
	left   int
	closed bool
	reads  int
}

func (b *vc16Body) Read(p []byte) (int, error) {
	b.reads++
	if b.left == 0 {
		return 0, io.EOF
	}
	n := len(p)
	if n > b.left {
		n = b.left
	}
	for i := 0; i < n; i++ {
		p[i] = 'x'
	}
	b.left -= n
	return n, nil
}

func (b *vc16Body) Close() error { b.closed = true; return nil }

type vc16Writer struct {
	h      http.Header
	status int
}

func (w *vc16Writer) Header() http.Header { return w.h }
func (w *vc16Writer) Write(p []byte) (int, error) {
	if w.status == 0 {
		w.status = 200
	}
	return len(p), nil
}
func (w *vc16Writer) WriteHeader(code int) {
	if w.status == 0 {
		w.status = code
	}
}

func VerifC16Pipeline() {
	limit := vNondetInt64("limit")
	vAssume(limit >= 1 && limit <= 6)
	compressed := vNondetInt("compressed_len")
	vAssume(compressed >= 0 && compressed <= 4)
	expanded := vNondetInt("expanded_len")
	vAssume(expanded >= 0 && expanded <= 8)
	compressed = vConcretize(compressed)
	expanded = vConcretize(expanded)

	all := []string{"", "gzip", "zlib", "deflate", "zstd", "snappy", "lz4"}
	// enabled built-in decoders: "" (identity) is always enabled by ToServer; one more chosen
	enabled := []string{""}
	extra := vChoice("enabled-extra", 4)
	switch extra {
	case 1:
		enabled = append(enabled, "zlib")
	case 2:
		enabled = append(enabled, "deflate")
	case 3:
		enabled = append(enabled, "gzip", "zstd")
	}
	src := &vc16Body{}
	custom := map[string]func(io.ReadCloser) (io.ReadCloser, error){
		"x-expand": func(io.ReadCloser) (io.ReadCloser, error) { return &vc16Body{left: expanded}, nil },
	}
	var got int
	invoked := false
	var sawEncoding, sawLength string
	var bodyAtHandler io.ReadCloser
	base := http.HandlerFunc(func(_ http.ResponseWriter, r *http.Request) {
		invoked = true
		sawEncoding, sawLength = r.Header.Get("Content-Encoding"), r.Header.Get("Content-Length")
		bodyAtHandler = r.Body
		buf := make([]byte, 1+vChoice("read-buffer", 3))
		for i := 0; i < 12; i++ {
			n, err := r.Body.Read(buf)
			got += n
			if err != nil {
				break
			}
		}
	})
	dec := httpContentDecompressor(base, limit, nil, enabled, custom)
	h := maxRequestBodySizeInterceptor(dec, limit)

	// which decoders exist is exactly what was enabled (plus the custom ones)
	for _, name := range all {
		_, has := dec.(*decompressor).decoders[name]
		on := false
		for _, e := range enabled {
			if e == name {
				on = true
			}
		}
		vAssert(has == on, "pipeline/decoder-present-iff-enabled")
	}

	encs := []string{"", "x-expand", "gzip", "zlib", "deflate", "br"}
	enc := encs[vChoice("content-encoding", len(encs))]
	encEnabled := enc == "x-expand"
	for _, e := range enabled {
		if e == enc {
			encEnabled = true
		}
	}
	if enc != "" && enc != "x-expand" && encEnabled {
		vAssume(false) // real codecs are outside this harness: only their rejection when not enabled is exercised
	}
	src.left = compressed
	req := &http.Request{Method: "POST", Header: http.Header{}, Body: src, ContentLength: int64(compressed)}
	if vChoice("chunked", 2) == 1 {
		req.ContentLength = -1 // unknown length (chunked / HTTP2)
	}
	if enc != "" {
		req.Header.Set("Content-Encoding", enc)
	}
	req.Header.Set("Content-Length", "4")
	w := &vc16Writer{h: http.Header{}}
	h.ServeHTTP(w, req)

	switch {
	case !encEnabled:
		vAssert(!invoked, "pipeline/not-enabled-encoding-never-reaches-the-handler")
		vAssert(w.status == http.StatusBadRequest, "pipeline/not-enabled-encoding-is-a-400")
		vReach("rejected")
	case enc == "":
		vAssert(invoked, "pipeline/plain-request-reaches-the-handler")
		vAssert(int64(got) <= limit, "pipeline/handler-never-reads-more-than-the-limit")
		if int64(compressed) <= limit {
			vAssert(got == compressed, "pipeline/plain-body-passes-through-completely")
		}
		vAssert(sawEncoding == "" && sawLength == "4", "pipeline/plain-request-headers-untouched")
		vReach("plain")
	default:
		vAssert(invoked, "pipeline/enabled-encoding-reaches-the-handler")
		vAssert(int64(got) <= limit, "pipeline/handler-never-reads-more-than-the-limit-after-decompression")
		if int64(expanded) <= limit {
			vAssert(got == expanded, "pipeline/decompressed-body-is-delivered-completely")
		}
		vAssert(sawEncoding == "" && sawLength == "", "pipeline/encoding-headers-removed-after-decompression")
		vReach("decompressed")
	}
	_ = bodyAtHandler
	vReach("end")
}
