package PKGNAME

// C16, client side: compressRoundTripper.RoundTrip with a stand-in codec (every byte xor 0x5A, so
// "compressed" differs from the original) over a body of symbolic bytes.  What the next round tripper
// receives must be a *new* request whose body, declared length and replay function (GetBody, used by
// the transport when it has to send the request again) all describe the compressed bytes and whose
// Content-Encoding names the algorithm; the caller's request and header map are left untouched, so
// sending the same request (or another request sharing the header map) again is compressed again.

import (
	"bytes"
	"io"
	"net/http"
	"sync"

	"go.opentelemetry.io/collector/config/configcompression"
)

type vc16Xor struct{ w io.Writer }

func (x *vc16Xor) Write(p []byte) (int, error) {
	q := make([]byte, len(p))
	for i := range p {
		q[i] = p[i] ^ 0x5A
	}
	return x.w.Write(q)
}
func (x *vc16Xor) Close() error      { return nil }
func (x *vc16Xor) Reset(w io.Writer) { x.w = w }

type vc16Next struct {
	got  []*http.Request
	body [][]byte
}

func (n *vc16Next) RoundTrip(r *http.Request) (*http.Response, error) {
	n.got = append(n.got, r)
	var b []byte
	if r.Body != nil {
		b, _ = io.ReadAll(r.Body)
	}
	n.body = append(n.body, b)
	return &http.Response{StatusCode: 200, Body: http.NoBody}, nil
}

func VerifC16RoundTripper() {
	n := vParam("bytes")
	payload := vNondetBytes("body", n)
	want := make([]byte, n)
	for i := range payload {
		want[i] = payload[i] ^ 0x5A
	}
	next := &vc16Next{}
	rt := &compressRoundTripper{rt: next, compressionType: configcompression.TypeGzip,
		compressor: &compressor{pool: sync.Pool{New: func() any { return &vc16Xor{} }}}}

	hdr := http.Header{"Content-Type": []string{"application/x-protobuf"}}
	mk := func() *http.Request {
		req, err := http.NewRequest(http.MethodPost, "http://collector:4318/v1/logs", bytes.NewReader(payload))
		vAssert(err == nil, "roundtrip/request-built")
		req.Header = hdr // requests of one client commonly share a header map
		return req
	}
	same := func(a, b []byte) bool {
		if len(a) != len(b) {
			return false
		}
		ok := true
		for i := range a {
			ok = ok && a[i] == b[i]
		}
		return ok
	}
	check := func(k int, req *http.Request, pass string) {
		vAssert(len(next.got) == k+1, "roundtrip/next-round-tripper-called-once/"+pass)
		if len(next.got) != k+1 {
			return
		}
		out := next.got[k]
		vAssert(out != req, "roundtrip/original-request-is-not-modified-but-replaced/"+pass)
		vAssert(len(out.Header["Content-Encoding"]) == 1 && out.Header["Content-Encoding"][0] == "gzip", "roundtrip/outgoing-request-names-the-encoding/"+pass)
		vAssert(same(next.body[k], want), "roundtrip/outgoing-body-is-the-compressed-payload/"+pass)
		vAssert(out.ContentLength == int64(n), "roundtrip/outgoing-length-is-the-compressed-length/"+pass)
		if out.GetBody != nil {
			rb, err := out.GetBody()
			vAssert(err == nil, "roundtrip/replay-body-available/"+pass)
			if err == nil {
				b, _ := io.ReadAll(rb)
				vAssert(same(b, want), "roundtrip/replayed-body-is-the-compressed-payload/"+pass)
			}
		}
		vAssert(len(req.Header["Content-Encoding"]) == 0 && len(hdr) == 1, "roundtrip/callers-header-map-untouched/"+pass)
		vAssert(out.Header.Get("Content-Type") == "application/x-protobuf", "roundtrip/other-headers-kept/"+pass)
	}
	req := mk()
	_, err := rt.RoundTrip(req)
	vAssert(err == nil, "roundtrip/ok/first")
	check(0, req, "first")
	switch vChoice("second-send", 2) {
	case 0: // the same request is sent again after its body was rewound (a retry by the caller)
		rb, gerr := req.GetBody()
		vAssert(gerr == nil, "roundtrip/caller-can-rewind")
		req.Body = rb
		_, err = rt.RoundTrip(req)
		vAssert(err == nil, "roundtrip/ok/resent")
		check(1, req, "resent")
	case 1: // another request sharing the header map
		req2 := mk()
		_, err = rt.RoundTrip(req2)
		vAssert(err == nil, "roundtrip/ok/shared-header-map")
		check(1, req2, "shared-header-map")
	}
	// a request that already carries an encoding passes through unchanged
	req3 := mk()
	req3.Header = http.Header{"Content-Encoding": []string{"br"}}
	_, err = rt.RoundTrip(req3)
	vAssert(err == nil && len(next.got) == 3 && next.got[2] == req3, "roundtrip/already-encoded-request-passes-through")
	vReach("end")
}
