package PKGNAME

// C17 (b, c): the shard logic of the batch processor on tagged pdata.
//  (b) sequential: payloads pushed through shard.processItem, then the final flush that shutdown
//      performs; send_batch_size / send_batch_max_size symbolic (valid per Config.Validate).
//  (c) the real shard goroutine (startLoop) under the scheduler: producers, timer firing and
//      Shutdown at arbitrary points.

import (
	"context"
	"sync"
	"time"

	"go.opentelemetry.io/otel/metric"
	"go.opentelemetry.io/otel/metric/noop"
	"go.uber.org/zap"

	"go.opentelemetry.io/collector/client"
	"go.opentelemetry.io/collector/consumer"
	"go.opentelemetry.io/collector/pdata/plog"
	"go.opentelemetry.io/collector/pdata/pmetric"
	"go.opentelemetry.io/collector/processor/batchprocessor/internal/metadata"
)

// vc17Hist is an instrument that reports itself disabled, so that byte sizes are not computed.
type vc17Hist struct{ noop.Int64Histogram }

func (vc17Hist) Enabled(context.Context) bool { return false }

func vc17Telemetry() *batchProcessorTelemetry {
	return &batchProcessorTelemetry{
		exportCtx: context.Background(),
		telemetryBuilder: &metadata.TelemetryBuilder{
			ProcessorBatchBatchSendSize:        noop.Int64Histogram{},
			ProcessorBatchBatchSendSizeBytes:   vc17Hist{},
			ProcessorBatchBatchSizeTriggerSend: noop.Int64Counter{},
			ProcessorBatchTimeoutTriggerSend:   noop.Int64Counter{},
		},
		processorAttr: metric.WithAttributes(),
	}
}

type vc17LogSink struct {
	batches [][]vc04LogItem
}

func (s *vc17LogSink) Capabilities() consumer.Capabilities { return consumer.Capabilities{} }
func (s *vc17LogSink) ConsumeLogs(_ context.Context, ld plog.Logs) error {
	s.batches = append(s.batches, vc04FlattenLogs(ld))
	return nil
}

type vc17MetricSink struct {
	batches [][]vc04Point
}

func (s *vc17MetricSink) Capabilities() consumer.Capabilities { return consumer.Capabilities{} }
func (s *vc17MetricSink) ConsumeMetrics(_ context.Context, md pmetric.Metrics) error {
	s.batches = append(s.batches, vc04FlattenMetrics(md))
	return nil
}

func vc17Config() (size, max int) {
	cfg := &Config{SendBatchSize: vNondetUint32("send_batch_size"), SendBatchMaxSize: vNondetUint32("send_batch_max_size"), Timeout: time.Second}
	vAssume(cfg.Validate() == nil)
	vAssume(cfg.SendBatchSize >= 1 && cfg.SendBatchSize <= 6 && cfg.SendBatchMaxSize <= 6)
	return int(cfg.SendBatchSize), int(cfg.SendBatchMaxSize)
}

func vc17CheckLogBatches(batches [][]vc04LogItem, in []vc04LogItem, max int, lbl string) {
	seen := map[uint64]int{}
	for _, b := range batches {
		vAssert(len(b) > 0, lbl+"/no-empty-batch-emitted")
		if max > 0 {
			vAssert(len(b) <= max, lbl+"/batch-within-send-batch-max-size")
		}
		for _, it := range b {
			seen[it.id]++
			var w *vc04LogItem
			for k := range in {
				if in[k].id == it.id {
					w = &in[k]
				}
			}
			vAssert(w != nil, lbl+"/nothing-invented")
			if w != nil {
				vAssert(it.rattr == w.rattr && it.sname == w.sname && it.sversion == w.sversion, lbl+"/item-keeps-resource-and-scope")
				vAssert(it.rschema == w.rschema, lbl+"/item-keeps-resource-schema-url")
				vAssert(it.sschema == w.sschema, lbl+"/item-keeps-scope-schema-url")
			}
		}
	}
	for _, it := range in {
		vAssert(seen[it.id] <= 1, lbl+"/nothing-emitted-twice")
		vAssert(seen[it.id] >= 1, lbl+"/everything-accepted-is-emitted")
	}
}

// VerifC17BatchLogs: sequential shard logic for logs.
func VerifC17BatchLogs() {
	size, max := vc17Config()
	sink := &vc17LogSink{}
	bp := &batchProcessor[plog.Logs]{logger: zap.NewNop(), sendBatchSize: size, sendBatchMaxSize: max, timeout: time.Second, telemetry: vc17Telemetry()}
	sh := &shard[plog.Logs]{processor: bp, exportCtx: context.Background(), batch: newBatchLogs(sink)}
	if vParam("timer_clause") == 1 || vChoice("with-timer", 2) == 1 {
		sh.timer = time.NewTimer(time.Second)
	}
	var id uint64
	var in []vc04LogItem
	N := vParam("payloads")
	for i := 0; i < N; i++ {
		vc04MaxR, vc04MaxS = 2, 2
		if i > 0 {
			vc04MaxR, vc04MaxS = 1, 1 // later payloads are small: one resource, one scope
		}
		ld, items := vc04BuildLogs(string(rune('a'+i)), &id, vParam("maxL"), false, 0)
		in = append(in, items...)
		pendingBefore := sh.batch.itemCount()
		batchesBefore := len(sink.batches)
		resetsBefore := vTimerResets()
		sh.processItem(ld)
		pending := len(in)
		for _, b := range sink.batches {
			pending -= len(b)
		}
		vAssert(sh.batch.itemCount() == pending, "batch-logs/item-count-matches-pending-payload")
		if vParam("timer_clause") == 1 && sh.hasTimer() && pendingBefore > 0 && len(sink.batches) == batchesBefore {
			// structural form of "pending items are emitted no later than the timeout after the FIRST of
			// them arrived": a later arrival that triggers no send must not restart the flush timer
			vAssert(vTimerResets() == resetsBefore, "batch-logs/later-arrival-does-not-postpone-the-flush-deadline")
			vReach("arrival-without-send")
		}
		if sh.hasTimer() {
			vAssert(pending < size, "batch-logs/emits-as-soon-as-send-batch-size-pending")
		} else {
			vAssert(pending == 0, "batch-logs/no-timer-sends-immediately")
		}
	}
	// what shutdown does with the rest
	if sh.batch.itemCount() > 0 {
		sh.sendItems(triggerTimeout)
	}
	vAssert(sh.batch.itemCount() == 0, "batch-logs/final-flush-empties-the-batch")
	vc17CheckLogBatches(sink.batches, in, max, "batch-logs")
	vReach("end")
}

// VerifC17BatchMetrics: sequential shard logic for metrics (data points).
func VerifC17BatchMetrics() {
	size, max := vc17Config()
	sink := &vc17MetricSink{}
	bp := &batchProcessor[pmetric.Metrics]{logger: zap.NewNop(), sendBatchSize: size, sendBatchMaxSize: max, timeout: time.Second, telemetry: vc17Telemetry()}
	sh := &shard[pmetric.Metrics]{processor: bp, exportCtx: context.Background(), batch: newMetricsBatch(sink)}
	if vChoice("with-timer", 2) == 1 {
		sh.timer = time.NewTimer(time.Second)
	}
	var id uint64
	var in []vc04Point
	N := vParam("payloads")
	for i := 0; i < N; i++ {
		vc04MetricTypes, vc04MaxM = 5, 2
		if i > 0 {
			vc04MetricTypes, vc04MaxM = 2, 1 // later payloads: one gauge or sum
		}
		md, pts := vc04BuildMetrics(string(rune('a'+i)), &id, vParam("maxP"))
		in = append(in, pts...)
		sh.processItem(md)
		pending := len(in)
		for _, b := range sink.batches {
			pending -= len(b)
		}
		vAssert(sh.batch.itemCount() == pending, "batch-metrics/item-count-matches-pending-payload")
		if sh.hasTimer() {
			vAssert(pending < size, "batch-metrics/emits-as-soon-as-send-batch-size-pending")
		}
	}
	if sh.batch.itemCount() > 0 {
		sh.sendItems(triggerTimeout)
	}
	seen := map[uint64]int{}
	for _, b := range sink.batches {
		vAssert(len(b) > 0, "batch-metrics/no-empty-batch-emitted")
		if max > 0 {
			vAssert(len(b) <= max, "batch-metrics/batch-within-send-batch-max-size")
		}
		for _, it := range b {
			seen[it.id]++
		}
	}
	for _, it := range in {
		vAssert(seen[it.id] <= 1, "batch-metrics/nothing-emitted-twice")
		vAssert(seen[it.id] >= 1, "batch-metrics/everything-accepted-is-emitted")
	}
	vReach("end")
}

// VerifC17ShardLoop: the real shard goroutine; producers, the timer and Shutdown interleave freely.
func VerifC17ShardLoop() {
	size, max := vc17Config()
	vAssume(size <= 3 && max <= 3)
	sink := &vc17LogSink{}
	bp := &batchProcessor[plog.Logs]{logger: zap.NewNop(), sendBatchSize: size, sendBatchMaxSize: max, timeout: time.Second, telemetry: vc17Telemetry(),
		shutdownC: make(chan struct{}, 1)}
	bp.batchFunc = func() batch[plog.Logs] { return newBatchLogs(sink) }
	single := bp.newShard(nil)
	bp.batcher = &singleShardBatcher[plog.Logs]{processor: bp, single: single}
	vAssert(bp.Start(context.Background(), nil) == nil, "shard-loop/start-ok")
	var id uint64
	var mu sync.Mutex
	var in []vc04LogItem
	P := vParam("producers")
	var wg sync.WaitGroup
	wg.Add(P)
	for p := 0; p < P; p++ {
		tag := string(rune('a' + p))
		vc04MaxR, vc04MaxS = 1, 1+p%2
		ld, items := vc04BuildLogs(tag, &id, 1+p%2, false, 0)
		go func() {
			defer wg.Done()
			err := bp.batcher.consume(context.Background(), ld)
			mu.Lock()
			if err == nil {
				in = append(in, items...) // accepted before shutdown began (we wait for the producers first)
			}
			mu.Unlock()
		}()
	}
	wg.Wait()
	// structural form of the timeliness clause: pending items imply an armed timer
	vAssert(bp.Shutdown(context.Background()) == nil, "shard-loop/shutdown-ok")
	vc17CheckLogBatches(sink.batches, in, max, "shard-loop")
	vSettle()
	vAssert(vLiveGoroutines() == 0, "shard-loop/no-goroutine-left-after-shutdown")
	vReach("end")
}

// ---- (d) metadata grouping ----------------------------------------------------------------------

type vc17MetaSink struct {
	batches []vc17MetaBatch
}

type vc17MetaBatch struct {
	tenant []string
	items  []vc04LogItem
}

func (s *vc17MetaSink) Capabilities() consumer.Capabilities { return consumer.Capabilities{} }
func (s *vc17MetaSink) ConsumeLogs(ctx context.Context, ld plog.Logs) error {
	s.batches = append(s.batches, vc17MetaBatch{tenant: client.FromContext(ctx).Metadata.Get("tenant"), items: vc04FlattenLogs(ld)})
	return nil
}

func vc17SameList(a, b []string) bool {
	if len(a) != len(b) {
		return false
	}
	for i := range a {
		if a[i] != b[i] {
			return false
		}
	}
	return true
}

// VerifC17Metadata: two producers whose client metadata for the configured key is drawn from a set
// of lists that includes the classic collision candidates (unset, [""], ["a","b"], ["a,b"]).
// Items with different values never share a batch; each batch is exported with its group's metadata;
// the cardinality limit refuses a new group.
func VerifC17Metadata() {
	lists := [][]string{nil, {""}, {"a"}, {"a", "b"}, {"a,b"}, {"b", "a"}}
	sink := &vc17MetaSink{}
	limit := vChoice("limit", 2) // 0 = unlimited, 1 = one group only
	bp := &batchProcessor[plog.Logs]{logger: zap.NewNop(), sendBatchSize: 8, sendBatchMaxSize: 0, timeout: time.Second, telemetry: vc17Telemetry(),
		shutdownC: make(chan struct{}, 1)}
	bp.batchFunc = func() batch[plog.Logs] { return newBatchLogs(sink) }
	bp.batcher = &multiShardBatcher[plog.Logs]{metadataKeys: []string{"tenant"}, metadataLimit: limit, processor: bp}
	var id uint64
	type sent struct {
		tenant []string
		items  []vc04LogItem
		err    error
	}
	var sents []sent
	vc04MaxR, vc04MaxS = 1, 1
	for p := 0; p < 2; p++ {
		l := lists[vChoice("tenant", len(lists))]
		ld, items := vc04BuildLogs(string(rune('a'+p)), &id, 1, false, 0)
		md := map[string][]string{}
		if l != nil {
			md["tenant"] = l
		}
		ctx := client.NewContext(context.Background(), client.Info{Metadata: client.NewMetadata(md)})
		err := bp.batcher.consume(ctx, ld)
		sents = append(sents, sent{tenant: l, items: items, err: err})
	}
	vAssert(sents[0].err == nil, "metadata/first-group-accepted")
	same := vc17SameList(sents[0].tenant, sents[1].tenant)
	if limit == 1 && !same {
		vAssert(sents[1].err != nil, "metadata/cardinality-limit-refuses-a-new-group")
	} else {
		vAssert(sents[1].err == nil, "metadata/accepted-within-limit")
	}
	vAssert(bp.Shutdown(context.Background()) == nil, "metadata/shutdown-ok")
	for _, st := range sents {
		if st.err != nil {
			continue
		}
		for _, it := range st.items {
			n := 0
			for _, b := range sink.batches {
				for _, bi := range b.items {
					if bi.id == it.id {
						n++
						vAssert(vc17SameList(b.tenant, st.tenant), "metadata/batch-exported-with-its-items-own-metadata")
					}
				}
			}
			vAssert(n == 1, "metadata/accepted-item-emitted-exactly-once")
		}
	}
	if !same {
		vReach("two-groups")
	}
	vReach("end")
}


// VerifC17MetadataConcurrent: producers with distinct metadata values arrive concurrently while the
// cardinality limit admits only one group: at most `limit` groups are ever accepted.
func VerifC17MetadataConcurrent() {
	sink := &vc17MetaSink{}
	bp := &batchProcessor[plog.Logs]{logger: zap.NewNop(), sendBatchSize: 8, sendBatchMaxSize: 0, timeout: time.Second, telemetry: vc17Telemetry(),
		shutdownC: make(chan struct{}, 1)}
	bp.batchFunc = func() batch[plog.Logs] { return newBatchLogs(sink) }
	mb := &multiShardBatcher[plog.Logs]{metadataKeys: []string{"tenant"}, metadataLimit: 1, processor: bp}
	bp.batcher = mb
	var id uint64
	P := vParam("producers")
	errs := make([]error, P)
	var wg sync.WaitGroup
	wg.Add(P)
	vc04MaxR, vc04MaxS = 1, 1
	// either every producer brings a different new group (the limit admits one), or all bring the
	// SAME not-yet-known group (all must be accepted and nothing may get lost in an orphan shard)
	sameGroup := vChoice("producers-carry-the-same-new-group", 2) == 1
	for p := 0; p < P; p++ {
		p := p
		ld, _ := vc04BuildLogs(string(rune('a'+p)), &id, 1, false, 0)
		tenant := string(rune('A' + p))
		if sameGroup {
			tenant = "A"
		}
		ctx := client.NewContext(context.Background(), client.Info{Metadata: client.NewMetadata(map[string][]string{"tenant": {tenant}})})
		go func() {
			defer wg.Done()
			errs[p] = bp.batcher.consume(ctx, ld)
		}()
	}
	wg.Wait()
	accepted := 0
	for _, e := range errs {
		if e == nil {
			accepted++
		}
	}
	if sameGroup {
		vAssert(accepted == P, "metadata-concurrent/every-arrival-of-the-one-group-is-accepted")
	} else {
		vAssert(accepted <= 1, "metadata-concurrent/cardinality-limit-holds-under-concurrent-arrivals")
		vAssert(accepted >= 1, "metadata-concurrent/first-group-is-accepted")
	}
	vAssert(mb.currentMetadataCardinality() <= 1, "metadata-concurrent/reported-cardinality-within-limit")
	vAssert(bp.Shutdown(context.Background()) == nil, "metadata-concurrent/shutdown-ok")
	groups := map[string]bool{}
	for _, b := range sink.batches {
		if len(b.tenant) == 1 {
			groups[b.tenant[0]] = true
		}
	}
	vAssert(len(groups) <= 1, "metadata-concurrent/at-most-limit-groups-emitted-downstream")
	emitted := 0
	for _, b := range sink.batches {
		emitted += len(b.items)
	}
	vAssert(emitted == accepted, "metadata-concurrent/everything-accepted-is-emitted-by-shutdown")
	vReach("end")
}
