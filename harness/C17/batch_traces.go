package PKGNAME

// C17 (b) for traces: the sequential shard logic (processItem / sendItems / batchTraces add, split,
// itemCount) with send_batch_size / send_batch_max_size symbolic, same clauses as the logs unit.

import (
	"context"
	"time"

	"go.uber.org/zap"

	"go.opentelemetry.io/collector/consumer"
	"go.opentelemetry.io/collector/pdata/ptrace"
)

type vc17TraceSink struct {
	batches [][]vc04Span
}

func (s *vc17TraceSink) Capabilities() consumer.Capabilities { return consumer.Capabilities{} }
func (s *vc17TraceSink) ConsumeTraces(_ context.Context, td ptrace.Traces) error {
	s.batches = append(s.batches, vc04FlattenTraces(td))
	return nil
}

func VerifC17BatchTraces() {
	size, max := vc17Config()
	sink := &vc17TraceSink{}
	bp := &batchProcessor[ptrace.Traces]{logger: zap.NewNop(), sendBatchSize: size, sendBatchMaxSize: max, timeout: time.Second, telemetry: vc17Telemetry()}
	sh := &shard[ptrace.Traces]{processor: bp, exportCtx: context.Background(), batch: newBatchTraces(sink)}
	if vChoice("with-timer", 2) == 1 {
		sh.timer = time.NewTimer(time.Second)
	}
	var id uint64
	var in []vc04Span
	N := vParam("payloads")
	for i := 0; i < N; i++ {
		td, items := vc04BuildTraces(string(rune('a'+i)), &id, vParam("maxL"))
		in = append(in, items...)
		sh.processItem(td)
		pending := len(in)
		for _, b := range sink.batches {
			pending -= len(b)
		}
		vAssert(sh.batch.itemCount() == pending, "batch-traces/item-count-matches-pending-payload")
		if sh.hasTimer() {
			vAssert(pending < size, "batch-traces/emits-as-soon-as-send-batch-size-pending")
		} else {
			vAssert(pending == 0, "batch-traces/no-timer-sends-immediately")
		}
	}
	if sh.batch.itemCount() > 0 {
		sh.sendItems(triggerTimeout)
	}
	vAssert(sh.batch.itemCount() == 0, "batch-traces/final-flush-empties-the-batch")
	seen := map[uint64]int{}
	for _, b := range sink.batches {
		vAssert(len(b) > 0, "batch-traces/no-empty-batch-emitted")
		if max > 0 {
			vAssert(len(b) <= max, "batch-traces/batch-within-send-batch-max-size")
		}
		for _, it := range b {
			seen[it.id]++
			var w *vc04Span
			for k := range in {
				if in[k].id == it.id {
					w = &in[k]
				}
			}
			vAssert(w != nil, "batch-traces/nothing-invented")
			if w != nil {
				vAssert(it.rattr == w.rattr && it.sname == w.sname && it.sversion == w.sversion, "batch-traces/item-keeps-resource-and-scope")
				vAssert(it.rschema == w.rschema && it.sschema == w.sschema, "batch-traces/item-keeps-schema-urls")
			}
		}
	}
	for _, it := range in {
		vAssert(seen[it.id] == 1, "batch-traces/everything-accepted-is-emitted-exactly-once")
	}
	vReach("end")
}
