package PKGNAME

// C17 (a): splitLogs / splitTraces / splitMetrics on tagged pdata: dest gets exactly
// min(size, total) items, src keeps the rest, every item exactly once with its full context.

func vc17CheckLogs(dest, src []vc04LogItem, in []vc04LogItem, size int, lbl string) {
	total := len(in)
	want := size
	if total < want {
		want = total
	}
	vAssert(len(dest) == want, lbl+"/dest-has-min-size-total-items")
	vAssert(len(dest)+len(src) == total, lbl+"/item-count-conserved")
	seen := map[uint64]int{}
	for _, part := range [][]vc04LogItem{dest, src} {
		for _, it := range part {
			seen[it.id]++
			var w *vc04LogItem
			for k := range in {
				if in[k].id == it.id {
					w = &in[k]
				}
			}
			vAssert(w != nil, lbl+"/no-invented-item")
			if w != nil {
				vAssert(it.rattr == w.rattr, lbl+"/item-keeps-resource")
				vAssert(it.rschema == w.rschema, lbl+"/item-keeps-resource-schema-url")
				vAssert(it.sname == w.sname && it.sversion == w.sversion, lbl+"/item-keeps-scope")
				vAssert(it.sschema == w.sschema, lbl+"/item-keeps-scope-schema-url")
			}
		}
	}
	for _, it := range in {
		vAssert(seen[it.id] == 1, lbl+"/every-item-exactly-once")
	}
}

func VerifC17SplitLogs() {
	var id uint64
	ld, in := vc04BuildLogs("a", &id, vParam("maxL"), false, 0)
	size := vNondetInt("size")
	vAssume(size >= 1 && size <= 1<<30)
	dest := splitLogs(size, ld)
	if len(in) <= size {
		// nothing to split: the whole payload is the batch (the function hands back its argument)
		vc17CheckLogs(vc04FlattenLogs(dest), nil, in, size, "split-logs")
	} else {
		vc17CheckLogs(vc04FlattenLogs(dest), vc04FlattenLogs(ld), in, size, "split-logs")
	}
	vReach("end")
}

func VerifC17SplitTraces() {
	var id uint64
	td, in := vc04BuildTraces("a", &id, vParam("maxL"))
	size := vNondetInt("size")
	vAssume(size >= 1 && size <= 1<<30)
	dest := splitTraces(size, td)
	conv := func(xs []vc04Span) []vc04LogItem {
		var r []vc04LogItem
		for _, x := range xs {
			r = append(r, vc04LogItem{id: x.id, rattr: x.rattr, rschema: x.rschema, sname: x.sname, sversion: x.sversion, sschema: x.sschema})
		}
		return r
	}
	if len(in) <= size {
		vc17CheckLogs(conv(vc04FlattenTraces(dest)), nil, conv(in), size, "split-traces")
	} else {
		vc17CheckLogs(conv(vc04FlattenTraces(dest)), conv(vc04FlattenTraces(td)), conv(in), size, "split-traces")
	}
	vReach("end")
}

func VerifC17SplitMetrics() {
	var id uint64
	md, in := vc04BuildMetrics("a", &id, vParam("maxP"))
	size := vNondetInt("size")
	vAssume(size >= 1 && size <= 1<<30)
	dest := splitMetrics(size, md)
	d, s := vc04FlattenMetrics(dest), vc04FlattenMetrics(md)
	if len(in) <= size {
		s = nil // nothing to split: the whole payload is the batch (the function hands back its argument)
	}
	total := len(in)
	want := size
	if total < want {
		want = total
	}
	vAssert(len(d) == want, "split-metrics/dest-has-min-size-total-items")
	vAssert(len(d)+len(s) == total, "split-metrics/item-count-conserved")
	seen := map[uint64]int{}
	for _, part := range [][]vc04Point{d, s} {
		for _, it := range part {
			seen[it.id]++
			var w *vc04Point
			for k := range in {
				if in[k].id == it.id {
					w = &in[k]
				}
			}
			vAssert(w != nil, "split-metrics/no-invented-item")
			if w == nil {
				continue
			}
			vAssert(it.rattr == w.rattr, "split-metrics/point-keeps-resource")
			vAssert(it.rschema == w.rschema, "split-metrics/point-keeps-resource-schema-url")
			vAssert(it.sname == w.sname, "split-metrics/point-keeps-scope")
			vAssert(it.sschema == w.sschema, "split-metrics/point-keeps-scope-schema-url")
			vAssert(it.mtype == w.mtype, "split-metrics/point-keeps-metric-type")
			vAssert(it.mname == w.mname && it.munit == w.munit && it.mdesc == w.mdesc, "split-metrics/point-keeps-metric-name-unit-description")
			vAssert(it.mmeta == w.mmeta, "split-metrics/point-keeps-metric-metadata")
			vAssert(it.temporality == w.temporality && it.monotonic == w.monotonic, "split-metrics/point-keeps-temporality-and-monotonicity")
		}
	}
	for _, it := range in {
		vAssert(seen[it.id] == 1, "split-metrics/every-item-exactly-once")
	}
	vReach("end")
}
