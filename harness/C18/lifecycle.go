package PKGNAME

// C18 (shared checker life cycle): several users start and shut down one limiter in arbitrary
// order; the checking goroutine exists from the first Start to the last Shutdown and not after;
// an unbalanced Shutdown returns the documented error; a user's Shutdown never changes the
// refusing state decided by the last measurement while other users are still running.

import (
	"context"
	"errors"
	"runtime"
	"time"

	"go.uber.org/zap"
)

func VerifC18Lifecycle() {
	cfg := &Config{CheckInterval: time.Second, MinGCIntervalWhenSoftLimited: time.Hour, MinGCIntervalWhenHardLimited: time.Hour,
		MemoryLimitMiB: 100, MemorySpikeLimitMiB: 20}
	ml, err := NewMemoryLimiter(cfg, zap.NewNop())
	vAssert(err == nil, "lifecycle/created")
	reading := vNondetUint64("alloc")
	ml.readMemStatsFn = func(ms *runtime.MemStats) { ms.Alloc = reading }
	ml.runGCFn = func() {}
	const soft = (100 - 20) * 1024 * 1024
	started := 0
	N := vParam("steps")
	checked := false
	for i := 0; i < N; i++ {
		switch vChoice("op", 3) {
		case 0:
			// the context handed to Start may be cancelled as soon as Start has returned
			ctx, cancel := context.WithCancel(context.Background())
			vAssert(ml.Start(ctx, nil) == nil, "lifecycle/start-ok")
			cancel()
			started++
		case 1:
			err := ml.Shutdown(context.Background())
			if started == 0 {
				vAssert(errors.Is(err, ErrShutdownNotStarted), "lifecycle/unbalanced-shutdown-returns-the-documented-error")
			} else {
				vAssert(err == nil, "lifecycle/balanced-shutdown-ok")
				started--
				if started == 0 {
					// the checker has stopped by the time the last Shutdown returns (no settling first): a check
					// still in flight must not take measurements or flip the refusing state afterwards
					vAssert(vLiveGoroutines() == 0, "lifecycle/checker-has-stopped-when-the-last-shutdown-returns")
				}
			}
		case 2:
			ml.CheckMemLimits()
			checked = true
		}
		vSettle()
		if started > 0 {
			vAssert(vLiveGoroutines() == 1, "lifecycle/checker-goroutine-runs-while-any-user-is-started")
		} else {
			vAssert(vLiveGoroutines() == 0, "lifecycle/no-checker-goroutine-when-nobody-is-started")
		}
		if checked {
			// the ticker may also have triggered checks: every check uses the same reading
			vAssert(ml.MustRefuse() == (reading >= soft), "lifecycle/refusing-state-follows-the-last-measurement")
		}
	}
	vReach("end")
}
