package PKGNAME

import (
	"math"
	"runtime"
	"time"

	"go.uber.org/zap"
)

// VerifC18NoGC: clock-free variant (GC intervals are infinite, so the clock never influences the
// path): limits computed from an arbitrary valid configuration, K checks with arbitrary readings.
// Being clock-free it is replayed natively against the real build.
func VerifC18NoGC() {
	const mib = 1024 * 1024
	cfg := &Config{
		CheckInterval:                time.Second,
		MinGCIntervalWhenSoftLimited: time.Duration(math.MaxInt64),
		MinGCIntervalWhenHardLimited: time.Duration(math.MaxInt64),
		MemoryLimitMiB:               vNondetUint32("limit_mib"),
		MemorySpikeLimitMiB:          vNondetUint32("spike_mib"),
		MemoryLimitPercentage:        vNondetUint32("limit_pct"),
		MemorySpikePercentage:        vNondetUint32("spike_pct"),
	}
	vAssume(cfg.Validate() == nil)
	total := vNondetUint64("total_memory")
	vAssume(total < 1<<50)
	GetMemoryFn = func() (uint64, error) { return total, nil }

	var hard, spike uint64
	if cfg.MemoryLimitMiB != 0 {
		hard = uint64(cfg.MemoryLimitMiB) * mib
		spike = uint64(cfg.MemorySpikeLimitMiB) * mib
	} else {
		hard = uint64(cfg.MemoryLimitPercentage) * total / 100
		spike = uint64(cfg.MemorySpikePercentage) * total / 100
	}
	if spike == 0 {
		spike = hard / 5
	}
	soft := hard - spike

	ml, err := NewMemoryLimiter(cfg, zap.NewNop())
	vAssert(err == nil && ml != nil, "constructor-accepts-valid-config")
	vObserve("soft", ml.usageChecker.memAllocLimit-ml.usageChecker.memSpikeLimit)
	vAssert(ml.usageChecker.memAllocLimit == hard, "hard-limit-as-documented")
	vAssert(ml.usageChecker.memAllocLimit-ml.usageChecker.memSpikeLimit == soft, "soft-limit-as-documented")
	gcRuns := 0
	var last uint64
	ml.readMemStatsFn = func(ms *runtime.MemStats) {
		ms.Alloc = vNondetUint64("alloc")
		last = ms.Alloc
	}
	ml.runGCFn = func() { gcRuns++ }
	K := vParam("K")
	for i := 0; i < K; i++ {
		ml.CheckMemLimits()
		vAssert(ml.MustRefuse() == (last >= soft), "refuse-iff-last-reading-at-or-above-soft")
		vObserve("refuse", ml.MustRefuse())
	}
	vAssert(gcRuns == 0, "no-gc-before-interval")
	vReach("end")
}
