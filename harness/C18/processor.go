package PKGNAME

// C18 (processor side): while the limiter refuses, every consume call of the memory-limiter
// processor returns a non-permanent error and forwards nothing; while it does not refuse the
// payload is forwarded unmodified and downstream's result is returned.

import (
	"context"
	"errors"
	"runtime"
	"time"

	tracenoop "go.opentelemetry.io/otel/trace/noop"
	"go.uber.org/zap"

	"go.opentelemetry.io/collector/component"
	"go.opentelemetry.io/collector/consumer"
	"go.opentelemetry.io/collector/consumer/consumererror"
	"go.opentelemetry.io/collector/internal/memorylimiter"
	"go.opentelemetry.io/collector/pdata/plog"
	"go.opentelemetry.io/collector/processor"
	"go.opentelemetry.io/collector/processor/processorhelper"
)

type vc18Next struct {
	calls int
	got   plog.Logs
	err   error
}

func (n *vc18Next) Capabilities() consumer.Capabilities { return consumer.Capabilities{} }
func (n *vc18Next) ConsumeLogs(_ context.Context, ld plog.Logs) error {
	n.calls++
	n.got = ld
	return n.err
}

func VerifC18Processor() {
	reading := vNondetUint64("alloc")
	memorylimiter.ReadMemStatsFn = func(ms *runtime.MemStats) { ms.Alloc = reading }
	led := vNewLedger()
	set := processor.Settings{ID: component.MustNewID("memory_limiter"),
		TelemetrySettings: component.TelemetrySettings{Logger: zap.NewNop(), MeterProvider: vLedgerProvider{led: led}, TracerProvider: tracenoop.NewTracerProvider()}}
	cfg := &Config{CheckInterval: time.Second, MinGCIntervalWhenSoftLimited: time.Hour, MinGCIntervalWhenHardLimited: time.Hour, MemoryLimitMiB: 100, MemorySpikeLimitMiB: 20}
	p, err := newMemoryLimiterProcessor(set, cfg)
	vAssert(err == nil, "processor/created")
	const soft = 80 * 1024 * 1024
	next := &vc18Next{}
	lp, err := processorhelper.NewLogs(context.Background(), set, cfg, next, p.processLogs)
	vAssert(err == nil, "processor/logs-processor-created")
	K := vParam("calls")
	for i := 0; i < K; i++ {
		reading = vNondetUint64("alloc")
		p.memlimiter.CheckMemLimits()
		refusing := reading >= soft
		vAssert(p.memlimiter.MustRefuse() == refusing, "processor/refusing-iff-reading-at-or-above-soft")
		ld := plog.NewLogs()
		lrs := ld.ResourceLogs().AppendEmpty().ScopeLogs().AppendEmpty().LogRecords()
		n := vChoice("records", 3) // also a payload that carries no record at all
		for j := 0; j < n; j++ {
			lrs.AppendEmpty()
		}
		next.err = nil
		if vChoice("downstream-fails", 2) == 1 {
			next.err = errors.New("downstream failed")
		}
		before := next.calls
		rerr := lp.ConsumeLogs(context.Background(), ld)
		if refusing {
			vAssert(errors.Is(rerr, memorylimiter.ErrDataRefused), "processor/refusing-returns-the-refusal-error")
			vAssert(!consumererror.IsPermanent(rerr), "processor/refusal-is-not-permanent")
			vAssert(next.calls == before, "processor/refusing-forwards-nothing")
			vReach("refused")
		} else {
			vAssert(next.calls == before+1, "processor/accepting-forwards-exactly-once")
			vAssert(next.got.LogRecordCount() == n, "processor/payload-forwarded-unmodified")
			vAssert(rerr == next.err, "processor/downstream-result-is-returned")
			vReach("forwarded")
		}
	}
	vReach("end")
}
