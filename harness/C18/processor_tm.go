package PKGNAME

// C18 (processor side, traces and metrics): same clauses as the logs unit on the other helpers.

import (
	"context"
	"errors"
	"runtime"
	"time"

	tracenoop "go.opentelemetry.io/otel/trace/noop"
	"go.uber.org/zap"

	"go.opentelemetry.io/collector/component"
	"go.opentelemetry.io/collector/consumer"
	"go.opentelemetry.io/collector/consumer/consumererror"
	"go.opentelemetry.io/collector/internal/memorylimiter"
	"go.opentelemetry.io/collector/pdata/pmetric"
	"go.opentelemetry.io/collector/pdata/ptrace"
	"go.opentelemetry.io/collector/processor"
	"go.opentelemetry.io/collector/processor/processorhelper"
)

type vc18NextT struct {
	calls int
	got   ptrace.Traces
	err   error
}

func (n *vc18NextT) Capabilities() consumer.Capabilities { return consumer.Capabilities{} }
func (n *vc18NextT) ConsumeTraces(_ context.Context, ld ptrace.Traces) error {
	n.calls++
	n.got = ld
	return n.err
}

func VerifC18ProcessorTraces() {
	reading := vNondetUint64("alloc")
	memorylimiter.ReadMemStatsFn = func(ms *runtime.MemStats) { ms.Alloc = reading }
	led := vNewLedger()
	set := processor.Settings{ID: component.MustNewID("memory_limiter"),
		TelemetrySettings: component.TelemetrySettings{Logger: zap.NewNop(), MeterProvider: vLedgerProvider{led: led}, TracerProvider: tracenoop.NewTracerProvider()}}
	cfg := &Config{CheckInterval: time.Second, MinGCIntervalWhenSoftLimited: time.Hour, MinGCIntervalWhenHardLimited: time.Hour, MemoryLimitMiB: 100, MemorySpikeLimitMiB: 20}
	p, err := newMemoryLimiterProcessor(set, cfg)
	vAssert(err == nil, "processor-traces/created")
	const soft = 80 * 1024 * 1024
	next := &vc18NextT{}
	lp, err := processorhelper.NewTraces(context.Background(), set, cfg, next, p.processTraces)
	vAssert(err == nil, "processor-traces/processor-created")
	K := vParam("calls")
	for i := 0; i < K; i++ {
		reading = vNondetUint64("alloc")
		p.memlimiter.CheckMemLimits()
		refusing := reading >= soft
		vAssert(p.memlimiter.MustRefuse() == refusing, "processor-traces/refusing-iff-reading-at-or-above-soft")
		ld := ptrace.NewTraces()
		lrs := ld.ResourceSpans().AppendEmpty().ScopeSpans().AppendEmpty().Spans()
		n := vChoice("records", 3) // also a payload that carries no record at all
		for j := 0; j < n; j++ {
			lrs.AppendEmpty()
		}
		next.err = nil
		if vChoice("downstream-fails", 2) == 1 {
			next.err = errors.New("downstream failed")
		}
		before := next.calls
		rerr := lp.ConsumeTraces(context.Background(), ld)
		if refusing {
			vAssert(errors.Is(rerr, memorylimiter.ErrDataRefused), "processor-traces/refusing-returns-the-refusal-error")
			vAssert(!consumererror.IsPermanent(rerr), "processor-traces/refusal-is-not-permanent")
			vAssert(next.calls == before, "processor-traces/refusing-forwards-nothing")
			vReach("refused")
		} else {
			vAssert(next.calls == before+1, "processor-traces/accepting-forwards-exactly-once")
			vAssert(next.got.SpanCount() == n, "processor-traces/payload-forwarded-unmodified")
			vAssert(rerr == next.err, "processor-traces/downstream-result-is-returned")
			vReach("forwarded")
		}
	}
	vReach("end")
}

type vc18NextM struct {
	calls int
	got   pmetric.Metrics
	err   error
}

func (n *vc18NextM) Capabilities() consumer.Capabilities { return consumer.Capabilities{} }
func (n *vc18NextM) ConsumeMetrics(_ context.Context, ld pmetric.Metrics) error {
	n.calls++
	n.got = ld
	return n.err
}

func VerifC18ProcessorMetrics() {
	reading := vNondetUint64("alloc")
	memorylimiter.ReadMemStatsFn = func(ms *runtime.MemStats) { ms.Alloc = reading }
	led := vNewLedger()
	set := processor.Settings{ID: component.MustNewID("memory_limiter"),
		TelemetrySettings: component.TelemetrySettings{Logger: zap.NewNop(), MeterProvider: vLedgerProvider{led: led}, TracerProvider: tracenoop.NewTracerProvider()}}
	cfg := &Config{CheckInterval: time.Second, MinGCIntervalWhenSoftLimited: time.Hour, MinGCIntervalWhenHardLimited: time.Hour, MemoryLimitMiB: 100, MemorySpikeLimitMiB: 20}
	p, err := newMemoryLimiterProcessor(set, cfg)
	vAssert(err == nil, "processor-metrics/created")
	const soft = 80 * 1024 * 1024
	next := &vc18NextM{}
	lp, err := processorhelper.NewMetrics(context.Background(), set, cfg, next, p.processMetrics)
	vAssert(err == nil, "processor-metrics/processor-created")
	K := vParam("calls")
	for i := 0; i < K; i++ {
		reading = vNondetUint64("alloc")
		p.memlimiter.CheckMemLimits()
		refusing := reading >= soft
		vAssert(p.memlimiter.MustRefuse() == refusing, "processor-metrics/refusing-iff-reading-at-or-above-soft")
		ld := pmetric.NewMetrics()
		lrs := ld.ResourceMetrics().AppendEmpty().ScopeMetrics().AppendEmpty().Metrics().AppendEmpty().SetEmptyGauge().DataPoints()
		n := vChoice("records", 3) // also a payload that carries no record at all
		for j := 0; j < n; j++ {
			lrs.AppendEmpty()
		}
		next.err = nil
		if vChoice("downstream-fails", 2) == 1 {
			next.err = errors.New("downstream failed")
		}
		before := next.calls
		rerr := lp.ConsumeMetrics(context.Background(), ld)
		if refusing {
			vAssert(errors.Is(rerr, memorylimiter.ErrDataRefused), "processor-metrics/refusing-returns-the-refusal-error")
			vAssert(!consumererror.IsPermanent(rerr), "processor-metrics/refusal-is-not-permanent")
			vAssert(next.calls == before, "processor-metrics/refusing-forwards-nothing")
			vReach("refused")
		} else {
			vAssert(next.calls == before+1, "processor-metrics/accepting-forwards-exactly-once")
			vAssert(next.got.DataPointCount() == n, "processor-metrics/payload-forwarded-unmodified")
			vAssert(rerr == next.err, "processor-metrics/downstream-result-is-returned")
			vReach("forwarded")
		}
	}
	vReach("end")
}
