package PKGNAME

import (
	"runtime"
	"time"

	"go.uber.org/zap"
)

// VerifC18Step: a history of K memory checks on a limiter built from an arbitrary valid
// configuration; every reading, every clock step and the whole configuration are symbolic.
func VerifC18Step() {
	const mib = 1024 * 1024
	cfg := &Config{
		CheckInterval:                time.Duration(vNondetInt64("check_interval")),
		MinGCIntervalWhenSoftLimited: time.Duration(vNondetInt64("gc_soft")),
		MinGCIntervalWhenHardLimited: time.Duration(vNondetInt64("gc_hard")),
		MemoryLimitMiB:               vNondetUint32("limit_mib"),
		MemorySpikeLimitMiB:          vNondetUint32("spike_mib"),
		MemoryLimitPercentage:        vNondetUint32("limit_pct"),
		MemorySpikePercentage:        vNondetUint32("spike_pct"),
	}
	vAssume(cfg.Validate() == nil)
	vAssume(cfg.MinGCIntervalWhenHardLimited >= 0)
	vAssume(cfg.MinGCIntervalWhenSoftLimited < 1<<50)
	total := vNondetUint64("total_memory")
	vAssume(total < 1<<50)
	GetMemoryFn = func() (uint64, error) { return total, nil }

	// Oracle for the documented limits (README of the memory limiter): hard = limit, soft = limit - spike,
	// spike defaults to 20% of the limit; percentages are of total memory.
	var hard, spike uint64
	if cfg.MemoryLimitMiB != 0 {
		hard = uint64(cfg.MemoryLimitMiB) * mib
		spike = uint64(cfg.MemorySpikeLimitMiB) * mib
	} else {
		hard = uint64(cfg.MemoryLimitPercentage) * total / 100
		spike = uint64(cfg.MemorySpikePercentage) * total / 100
	}
	if spike == 0 {
		spike = hard / 5
	}
	vAssert(spike <= hard, "soft-limit-no-underflow")
	soft := hard - spike

	tCreate0 := time.Now()
	ml, err := NewMemoryLimiter(cfg, zap.NewNop())
	tCreate1 := time.Now()
	vAssert(err == nil && ml != nil, "constructor-accepts-valid-config")

	var readings []uint64
	gcRuns := 0
	ml.readMemStatsFn = func(ms *runtime.MemStats) {
		ms.Alloc = vNondetUint64("alloc")
		readings = append(readings, ms.Alloc)
	}
	ml.runGCFn = func() { gcRuns++ }

	// interval in which the last forced GC (or construction) happened
	lastLo, lastHi := tCreate0, tCreate1
	K := vParam("K")
	for i := 0; i < K; i++ {
		readings = readings[:0]
		gcBefore := gcRuns
		t0 := time.Now()
		ml.CheckMemLimits()
		t1 := time.Now()
		n := len(readings)
		vAssert(n == 1 || n == 2, "one-or-two-readings")
		first, last := readings[0], readings[n-1]
		ranGC := gcRuns > gcBefore
		vAssert(gcRuns-gcBefore <= 1, "at-most-one-gc-per-check")
		vAssert(ranGC == (n == 2), "reading-after-gc-iff-gc")
		// refusing iff the most recent measurement is at or above the soft limit
		vAssert(ml.MustRefuse() == (last >= soft), "refuse-iff-last-reading-at-or-above-soft")
		if ranGC {
			vReach("gc-ran")
			vAssert(first >= soft, "gc-only-above-soft")
			interval := cfg.MinGCIntervalWhenSoftLimited
			if first >= hard {
				interval = cfg.MinGCIntervalWhenHardLimited
			}
			// the GC decision compared (now - lastGC) > interval with now in [t0,t1], lastGC in [lastLo,lastHi]
			vAssert(t1.Sub(lastLo) > interval, "gc-only-after-min-interval")
			lastLo, lastHi = t0, t1
		} else if first >= soft {
			vReach("gc-skipped-above-soft")
			interval := cfg.MinGCIntervalWhenSoftLimited
			if first >= hard {
				interval = cfg.MinGCIntervalWhenHardLimited
			}
			vAssert(t0.Sub(lastHi) <= interval, "gc-forced-when-interval-elapsed")
		}
		if ml.MustRefuse() {
			vReach("refusing")
		} else {
			vReach("accepting")
		}
	}
	vReach("end")
}
