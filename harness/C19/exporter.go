package PKGNAME

// C19 (exporter side): obsReportSender books every request's items as sent or failed-to-send,
// whatever the outcome (success, failure, interruption by shutdown); item counts symbolic.

import (
	"context"
	"errors"

	tracenoop "go.opentelemetry.io/otel/trace/noop"

	"go.opentelemetry.io/collector/component"
	"go.opentelemetry.io/collector/exporter"
	"go.opentelemetry.io/collector/exporter/exporterhelper/internal/experr"
	"go.opentelemetry.io/collector/exporter/exporterhelper/internal/request"
	"go.opentelemetry.io/collector/exporter/exporterhelper/internal/sender"
	"go.opentelemetry.io/collector/pipeline"
)

type vc19Req struct{ items int }

func (r *vc19Req) ItemsCount() int { return r.items }
func (r *vc19Req) MergeSplit(context.Context, int, request.SizerType, request.Request) ([]request.Request, error) {
	return []request.Request{r}, nil
}

func VerifC19ExporterSender() {
	led := vNewLedger()
	var outcome error
	next := sender.NewSender(func(context.Context, request.Request) error { return outcome })
	sig := []pipeline.Signal{pipeline.SignalTraces, pipeline.SignalMetrics, pipeline.SignalLogs}[vChoice("signal", 3)]
	ors, err := newObsReportSender[request.Request](exporter.Settings{ID: component.MustNewID("vexp"),
		TelemetrySettings: component.TelemetrySettings{MeterProvider: vLedgerProvider{led: led}, TracerProvider: tracenoop.NewTracerProvider()}}, sig, next)
	vAssert(err == nil, "exporter/obsreport-sender-created")
	var given, wantSent, wantFailed int64
	K := vParam("requests")
	for i := 0; i < K; i++ {
		n := vNondetInt("items")
		vAssume(n >= 0 && n <= 1<<40)
		switch vChoice("outcome", 3) {
		case 0:
			outcome = nil
			wantSent += int64(n)
		case 1:
			outcome = errors.New("export failed")
			wantFailed += int64(n)
		case 2:
			// interrupted by shutdown with an in-memory queue / no queue: the request is dropped, i.e. failed to send
			outcome = experr.NewShutdownErr(errors.New("stopping"))
			wantFailed += int64(n)
		}
		given += int64(n)
		_ = ors.Send(context.Background(), &vc19Req{items: n})
	}
	names := map[pipeline.Signal][2]string{
		pipeline.SignalTraces:  {"otelcol_exporter_sent_spans", "otelcol_exporter_send_failed_spans"},
		pipeline.SignalMetrics: {"otelcol_exporter_sent_metric_points", "otelcol_exporter_send_failed_metric_points"},
		pipeline.SignalLogs:    {"otelcol_exporter_sent_log_records", "otelcol_exporter_send_failed_log_records"},
	}[sig]
	sent, failed := led.sum[names[0]], led.sum[names[1]]
	vAssert(sent+failed == given, "exporter/sent-plus-failed-equals-items-given")
	vAssert(sent == wantSent, "exporter/sent-counts-successful-requests")
	vAssert(failed == wantFailed, "exporter/failed-counts-every-unsuccessful-request")
	var total int64
	for _, v := range led.sum {
		total += v
	}
	vAssert(total == given, "exporter/nothing-booked-on-another-signal")
	vReach("end")
}
