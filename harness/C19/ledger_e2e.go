package PKGNAME

// C19 (exporter ledger across the stages): the queue front (obsQueue over the in-memory queue with
// its consumer goroutine, as NewQueueBatch assembles them) feeding obsReportSender feeding the export
// function.  K requests with symbolic item counts, export outcome chosen per request, queue
// configuration chosen (fire-and-forget or wait_for_result, small capacity so that refusals occur).
// After shutdown: sent + failed-to-send + failed-to-enqueue == items given.

import (
	"context"
	"errors"

	tracenoop "go.opentelemetry.io/otel/trace/noop"
	"go.uber.org/zap"

	"go.opentelemetry.io/collector/component"
	"go.opentelemetry.io/collector/exporter"
	"go.opentelemetry.io/collector/exporter/exporterhelper/internal/queuebatch"
	"go.opentelemetry.io/collector/exporter/exporterhelper/internal/request"
	"go.opentelemetry.io/collector/exporter/exporterhelper/internal/sender"
	"go.opentelemetry.io/collector/pipeline"
)

func VerifC19ExporterLedger() {
	led := vNewLedger()
	tel := component.TelemetrySettings{Logger: zap.NewNop(), MeterProvider: vLedgerProvider{led: led}, TracerProvider: tracenoop.NewTracerProvider()}
	var outcomes []error
	calls := 0
	export := sender.NewSender(func(context.Context, request.Request) error {
		e := outcomes[calls]
		calls++
		return e
	})
	ors, err := newObsReportSender[request.Request](exporter.Settings{ID: component.MustNewID("vexp"), TelemetrySettings: tel}, pipeline.SignalLogs, export)
	vAssert(err == nil, "ledger/obsreport-sender-created")
	waitForResult := vChoice("wait-for-result", 2) == 1
	cfg := queuebatch.Config{Enabled: true, Sizer: request.SizerTypeItems, QueueSize: 4, NumConsumers: 1, WaitForResult: waitForResult}
	qb, err := queuebatch.NewQueueBatch(queuebatch.Settings[request.Request]{Signal: pipeline.SignalLogs, ID: component.MustNewID("vexp"), Telemetry: tel,
		Sizers: map[request.SizerType]request.Sizer[request.Request]{request.SizerTypeItems: request.NewItemsSizer()}}, cfg, ors.Send)
	vAssert(err == nil, "ledger/queue-created")
	vAssert(qb.Start(context.Background(), nil) == nil, "ledger/queue-started")
	K := vParam("requests")
	var given int64
	for i := 0; i < K; i++ {
		n := 1 + vChoice("items", 5) // up to 5 items against a capacity of 4: some requests are refused at the front
		if vChoice("export-fails", 2) == 1 {
			outcomes = append(outcomes, errors.New("export failed"))
		} else {
			outcomes = append(outcomes, nil)
		}
		given += int64(n)
		_ = qb.Send(context.Background(), &vc19Req{items: n})
	}
	vAssert(qb.Shutdown(context.Background()) == nil, "ledger/shutdown-ok")
	sent, failed, refused := led.sum["otelcol_exporter_sent_log_records"], led.sum["otelcol_exporter_send_failed_log_records"], led.sum["otelcol_exporter_enqueue_failed_log_records"]
	mode := "fire-and-forget"
	if waitForResult {
		mode = "wait-for-result"
	}
	vAssert(sent+failed+refused == given, "ledger/sent-plus-send-failed-plus-enqueue-failed-equals-items-given/"+mode)
	vReach("end")
}
