package PKGNAME

// C19 (processor side): for every processor built with the helper, incoming = items it was given,
// outgoing = items it forwarded; over a history of calls with arbitrary processing outcomes.

import (
	"context"
	"errors"

	tracenoop "go.opentelemetry.io/otel/trace/noop"

	"go.opentelemetry.io/collector/component"
	"go.opentelemetry.io/collector/consumer"
	"go.opentelemetry.io/collector/pdata/plog"
	"go.opentelemetry.io/collector/pdata/ptrace"
	"go.opentelemetry.io/collector/processor"
)

type vc19Next struct {
	items int
	err   error
}

func (n *vc19Next) Capabilities() consumer.Capabilities { return consumer.Capabilities{} }
func (n *vc19Next) ConsumeLogs(_ context.Context, ld plog.Logs) error {
	n.items += ld.LogRecordCount()
	return n.err
}
func (n *vc19Next) ConsumeTraces(_ context.Context, td ptrace.Traces) error {
	n.items += td.SpanCount()
	return n.err
}

func vc19Set(led *vLedger) processor.Settings {
	return processor.Settings{ID: component.MustNewID("vproc"),
		TelemetrySettings: component.TelemetrySettings{MeterProvider: vLedgerProvider{led: led}, TracerProvider: tracenoop.NewTracerProvider()}}
}

func VerifC19ProcessorLogs() {
	led := vNewLedger()
	next := &vc19Next{}
	var drop int
	var ferr error
	p, err := NewLogs(context.Background(), vc19Set(led), nil, next, func(_ context.Context, ld plog.Logs) (plog.Logs, error) {
		if ferr != nil {
			return ld, ferr
		}
		// a filtering processor: removes the first `drop` records
		k := 0
		ld.ResourceLogs().At(0).ScopeLogs().At(0).LogRecords().RemoveIf(func(plog.LogRecord) bool { k++; return k <= drop })
		return ld, nil
	})
	vAssert(err == nil, "processor-logs/created")
	given, forwarded := 0, 0
	K := vParam("calls")
	for i := 0; i < K; i++ {
		n := 1 + vChoice("records", 3)
		ld := plog.NewLogs()
		lrs := ld.ResourceLogs().AppendEmpty().ScopeLogs().AppendEmpty().LogRecords()
		for j := 0; j < n; j++ {
			lrs.AppendEmpty()
		}
		ferr = nil
		drop = 0
		switch vChoice("outcome", 4) {
		case 0:
			drop = vChoice("drop", n+1)
			forwarded += n - drop
		case 1:
			ferr = ErrSkipProcessingData
		case 2:
			ferr = errors.New("processing failed")
		case 3:
			next.err = errors.New("downstream failed")
			forwarded += n
		}
		given += n
		before := next.items
		rerr := p.ConsumeLogs(context.Background(), ld)
		if ferr == ErrSkipProcessingData {
			vAssert(rerr == nil && next.items == before, "processor-logs/skip-returns-nil-and-forwards-nothing")
		}
		next.err = nil
	}
	vAssert(led.sum["otelcol_processor_incoming_items"] == int64(given), "processor-logs/incoming-equals-items-given")
	vAssert(led.sum["otelcol_processor_outgoing_items"] == int64(forwarded), "processor-logs/outgoing-equals-items-forwarded")
	vAssert(next.items == forwarded, "processor-logs/forwarded-count-matches-downstream")
	vReach("end")
}

func VerifC19ProcessorTraces() {
	led := vNewLedger()
	next := &vc19Next{}
	var ferr error
	p, err := NewTraces(context.Background(), vc19Set(led), nil, next, func(_ context.Context, td ptrace.Traces) (ptrace.Traces, error) {
		return td, ferr
	})
	vAssert(err == nil, "processor-traces/created")
	given, forwarded := 0, 0
	K := vParam("calls")
	for i := 0; i < K; i++ {
		n := 1 + vChoice("spans", 3)
		td := ptrace.NewTraces()
		sps := td.ResourceSpans().AppendEmpty().ScopeSpans().AppendEmpty().Spans()
		for j := 0; j < n; j++ {
			sps.AppendEmpty()
		}
		ferr = nil
		switch vChoice("outcome", 3) {
		case 0:
			forwarded += n
		case 1:
			ferr = ErrSkipProcessingData
		case 2:
			ferr = errors.New("processing failed")
		}
		given += n
		_ = p.ConsumeTraces(context.Background(), td)
	}
	vAssert(led.sum["otelcol_processor_incoming_items"] == int64(given), "processor-traces/incoming-equals-items-given")
	vAssert(led.sum["otelcol_processor_outgoing_items"] == int64(forwarded), "processor-traces/outgoing-equals-items-forwarded")
	vReach("end")
}
