package PKGNAME

// C19 (processor helper, metrics): incoming = data points given, outgoing = data points forwarded.

import (
	"context"
	"errors"

	"go.opentelemetry.io/collector/consumer"
	"go.opentelemetry.io/collector/pdata/pmetric"
)

type vc19NextM struct{ items int }

func (n *vc19NextM) Capabilities() consumer.Capabilities { return consumer.Capabilities{} }
func (n *vc19NextM) ConsumeMetrics(_ context.Context, md pmetric.Metrics) error {
	n.items += md.DataPointCount()
	return nil
}

func VerifC19ProcessorMetrics() {
	led := vNewLedger()
	next := &vc19NextM{}
	var ferr error
	p, err := NewMetrics(context.Background(), vc19Set(led), nil, next, func(_ context.Context, td pmetric.Metrics) (pmetric.Metrics, error) {
		return td, ferr
	})
	vAssert(err == nil, "processor-metrics/created")
	given, forwarded := 0, 0
	K := vParam("calls")
	for i := 0; i < K; i++ {
		n := 1 + vChoice("points", 3)
		td := pmetric.NewMetrics()
		sps := td.ResourceMetrics().AppendEmpty().ScopeMetrics().AppendEmpty().Metrics().AppendEmpty().SetEmptyGauge().DataPoints()
		for j := 0; j < n; j++ {
			sps.AppendEmpty()
		}
		ferr = nil
		switch vChoice("outcome", 3) {
		case 0:
			forwarded += n
		case 1:
			ferr = ErrSkipProcessingData
		case 2:
			ferr = errors.New("processing failed")
		}
		given += n
		_ = p.ConsumeMetrics(context.Background(), td)
	}
	vAssert(led.sum["otelcol_processor_incoming_items"] == int64(given), "processor-metrics/incoming-equals-items-given")
	vAssert(led.sum["otelcol_processor_outgoing_items"] == int64(forwarded), "processor-metrics/outgoing-equals-items-forwarded")
	vReach("end")
}
