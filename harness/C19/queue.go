package PKGNAME

// C19 (exporter queue): items that failed to enqueue are counted on the signal's own
// enqueue-failed counter; the size and capacity gauges report the queue's actual size and capacity.

import (
	"context"

	tracenoop "go.opentelemetry.io/otel/trace/noop"

	"go.opentelemetry.io/collector/component"
	"go.opentelemetry.io/collector/exporter/exporterhelper/internal/request"
	"go.opentelemetry.io/collector/pipeline"
)

type vc19QReq struct{ items int }

func (r *vc19QReq) ItemsCount() int { return r.items }
func (r *vc19QReq) MergeSplit(context.Context, int, request.SizerType, request.Request) ([]request.Request, error) {
	return []request.Request{r}, nil
}

func VerifC19ExporterQueue() {
	led := vNewLedger()
	capacity := vNondetInt64("capacity")
	vAssume(capacity >= 1 && capacity <= 1<<40)
	inner := newMemoryQueue[request.Request](memoryQueueSettings[request.Request]{sizer: request.NewItemsSizer(), capacity: capacity})
	sig := []pipeline.Signal{pipeline.SignalTraces, pipeline.SignalMetrics, pipeline.SignalLogs}[vChoice("signal", 3)]
	q, err := newObsQueue[request.Request](Settings[request.Request]{ID: component.MustNewID("vexp"), Signal: sig,
		Telemetry: component.TelemetrySettings{MeterProvider: vLedgerProvider{led: led}, TracerProvider: tracenoop.NewTracerProvider()}}, inner)
	vAssert(err == nil, "queue/obs-queue-created")
	var failedItems, acceptedItems int64
	K := vParam("offers")
	for i := 0; i < K; i++ {
		n := vNondetInt("items")
		vAssume(n >= 0 && n <= 1<<40)
		if q.Offer(context.Background(), &vc19QReq{items: n}) != nil {
			failedItems += int64(n)
			vReach("enqueue-failed")
		} else {
			acceptedItems += int64(n)
		}
	}
	name := map[pipeline.Signal]string{pipeline.SignalTraces: "otelcol_exporter_enqueue_failed_spans", pipeline.SignalMetrics: "otelcol_exporter_enqueue_failed_metric_points", pipeline.SignalLogs: "otelcol_exporter_enqueue_failed_log_records"}[sig]
	vAssert(led.sum[name] == failedItems, "queue/enqueue-failed-counts-exactly-the-refused-items-on-its-own-signal")
	var total int64
	for _, v := range led.sum {
		total += v
	}
	vAssert(total == failedItems, "queue/nothing-booked-on-another-counter")
	led.vCollect()
	vAssert(led.observed["otelcol_exporter_queue_size"] == inner.Size(), "queue/size-gauge-reports-the-actual-size")
	vAssert(led.observed["otelcol_exporter_queue_size"] == acceptedItems, "queue/size-gauge-equals-accepted-unfinished-items")
	vAssert(led.observed["otelcol_exporter_queue_capacity"] == capacity, "queue/capacity-gauge-reports-the-capacity")
	vReach("end")
}
