package PKGNAME

// C19 (exporter queue): items that failed to enqueue are counted on the signal's own
// enqueue-failed counter; the size and capacity gauges report the queue's actual size and capacity.

import (
	"context"

	tracenoop "go.opentelemetry.io/otel/trace/noop"

	"go.opentelemetry.io/collector/component"
	"go.opentelemetry.io/collector/exporter/exporterhelper/internal/request"
	"go.opentelemetry.io/collector/pipeline"
)

type vc19QReq struct{ items int }

func (r *vc19QReq) ItemsCount() int { return r.items }
func (r *vc19QReq) MergeSplit(context.Context, int, request.SizerType, request.Request) ([]request.Request, error) {
	return []request.Request{r}, nil
}

func VerifC19ExporterQueue() {
	led := vNewLedger()
	capacity := vNondetInt64("capacity")
	vAssume(capacity >= 1 && capacity <= 1<<40)
	inner := newMemoryQueue[request.Request](memoryQueueSettings[request.Request]{sizer: request.NewItemsSizer(), capacity: capacity})
	sig := []pipeline.Signal{pipeline.SignalTraces, pipeline.SignalMetrics, pipeline.SignalLogs}[vChoice("signal", 3)]
	q, err := newObsQueue[request.Request](Settings[request.Request]{ID: component.MustNewID("vexp"), Signal: sig,
		Telemetry: component.TelemetrySettings{MeterProvider: vLedgerProvider{led: led}, TracerProvider: tracenoop.NewTracerProvider()}}, inner)
	vAssert(err == nil, "queue/obs-queue-created")
	var failedItems, acceptedItems int64
	type handed struct {
		items int64
		done  Done
	}
	var outs []handed
	var queued []int64
	K := vParam("offers")
	for i := 0; i < K; i++ {
		switch vChoice("op", 3) {
		case 0:
			n := vNondetInt("items")
			vAssume(n >= 0 && n <= 1<<40)
			// the producer's context may already have ended: whether the request is counted as refused must
			// only depend on whether it entered the queue
			octx := context.Background()
			if vChoice("producer-context-ended", 2) == 1 {
				c, cancel := context.WithCancel(octx)
				cancel()
				octx = c
			}
			if q.Offer(octx, &vc19QReq{items: n}) != nil {
				failedItems += int64(n)
				vReach("enqueue-failed")
			} else if n > 0 { // an empty request is acknowledged without being queued
				acceptedItems += int64(n)
				queued = append(queued, int64(n))
			}
		case 1: // a consumer takes the oldest queued request (the gauge still counts it until it is done)
			if len(queued) == 0 {
				vAssume(false)
			}
			_, _, done, ok := inner.Read(context.Background())
			vAssert(ok, "queue/read-returns-a-queued-request")
			if !ok {
				return
			}
			outs = append(outs, handed{items: queued[0], done: done})
			queued = queued[1:]
		default: // the oldest hand-off completes, successfully or not
			if len(outs) == 0 {
				vAssume(false)
			}
			var derr error
			if vChoice("export-fails", 2) == 1 {
				derr = context.DeadlineExceeded
			}
			outs[0].done.OnDone(derr)
			acceptedItems -= outs[0].items
			outs = outs[1:]
			vReach("completed")
		}
		led.vCollect()
		vAssert(led.observed["otelcol_exporter_queue_size"] == acceptedItems, "queue/size-gauge-equals-accepted-unfinished-items-after-every-step")
	}
	name := map[pipeline.Signal]string{pipeline.SignalTraces: "otelcol_exporter_enqueue_failed_spans", pipeline.SignalMetrics: "otelcol_exporter_enqueue_failed_metric_points", pipeline.SignalLogs: "otelcol_exporter_enqueue_failed_log_records"}[sig]
	vAssert(led.sum[name] == failedItems, "queue/enqueue-failed-counts-exactly-the-refused-items-on-its-own-signal")
	var total int64
	for _, v := range led.sum {
		total += v
	}
	vAssert(total == failedItems, "queue/nothing-booked-on-another-counter")
	led.vCollect()
	vAssert(led.observed["otelcol_exporter_queue_size"] == inner.Size(), "queue/size-gauge-reports-the-actual-size")
	vAssert(led.observed["otelcol_exporter_queue_size"] == acceptedItems, "queue/size-gauge-equals-accepted-unfinished-items")
	vAssert(led.observed["otelcol_exporter_queue_capacity"] == capacity, "queue/capacity-gauge-reports-the-capacity")
	vReach("end")
}
