package PKGNAME

// C19 (queue size gauge over the persistent queue): the same offer / read / complete scripts as the
// in-memory unit, with the requests sizer (the only one a validated configuration allows with
// storage): after every step the gauge equals the number of accepted requests that are not finished.

import (
	"context"

	tracenoop "go.opentelemetry.io/otel/trace/noop"
	"go.uber.org/zap"

	"go.opentelemetry.io/collector/component"
	"go.opentelemetry.io/collector/exporter/exporterhelper/internal/request"
	"go.opentelemetry.io/collector/pipeline"
)

type vc19PReq struct{ vc01Req }

func (vc19PReq) ItemsCount() int { return 1 }
func (r vc19PReq) MergeSplit(context.Context, int, request.SizerType, request.Request) ([]request.Request, error) {
	return []request.Request{r}, nil
}

type vc19PEnc struct{}

func (vc19PEnc) Marshal(r vc19PReq) ([]byte, error) { return vc01Enc{}.Marshal(r.vc01Req) }
func (vc19PEnc) Unmarshal(b []byte) (vc19PReq, error) {
	r, err := vc01Enc{}.Unmarshal(b)
	return vc19PReq{r}, err
}

func VerifC19PersistentQueueGauge() {
	led := vNewLedger()
	capacity := vNondetInt64("capacity")
	vAssume(capacity >= 1 && capacity <= 4)
	tel := component.TelemetrySettings{Logger: zap.NewNop(), MeterProvider: vLedgerProvider{led: led}, TracerProvider: tracenoop.NewTracerProvider()}
	inner := newPersistentQueue[vc19PReq](persistentQueueSettings[vc19PReq]{sizer: request.RequestsSizer[vc19PReq]{}, capacity: capacity, encoding: vc19PEnc{}, telemetry: tel}).(*persistentQueue[vc19PReq])
	inner.initClient(context.Background(), &vc01Store{m: map[string][]byte{}})
	q, err := newObsQueue[vc19PReq](Settings[vc19PReq]{ID: component.MustNewID("vexp"), Signal: pipeline.SignalLogs, Telemetry: tel}, inner)
	vAssert(err == nil, "persistent-gauge/obs-queue-created")
	var unfinished, queued int64
	var outs []Done
	seq := uint64(1)
	circumstance := "queue-never-drained-by-a-read"
	K := vParam("offers")
	for i := 0; i < K; i++ {
		switch vChoice("op", 3) {
		case 0:
			if q.Offer(context.Background(), vc19PReq{vc01Req{seq: seq}}) == nil {
				unfinished++
				queued++
			}
			seq++
		case 1:
			if queued == 0 {
				vAssume(false)
			}
			_, _, done, ok := inner.Read(context.Background())
			vAssert(ok, "persistent-gauge/read-returns-a-queued-request")
			if !ok {
				return
			}
			outs = append(outs, done)
			queued--
			if queued == 0 {
				// circumstance of the known finding: Read re-synchronises the size to 0 when it drains the
				// queue, although the request it hands out (and possibly others) is still in flight
				circumstance = "after-a-read-drained-the-queue"
			}
		default:
			if len(outs) == 0 {
				vAssume(false)
			}
			outs[0].OnDone(nil)
			outs = outs[1:]
			unfinished--
			vReach("completed")
		}
		led.vCollect()
		vAssert(led.observed["otelcol_exporter_queue_size"] == unfinished, "persistent-gauge/size-gauge-equals-accepted-unfinished-requests/"+circumstance)
		vAssert(led.observed["otelcol_exporter_queue_capacity"] == capacity, "persistent-gauge/capacity-gauge-reports-the-capacity")
	}
	vReach("end")
}
