package PKGNAME

// C19 (receiver side): for every receiver operation accepted + refused, recorded under the
// counters of the operation's own signal, equals the items offered; which one is non-zero follows
// the downstream result.  Item counts are symbolic.

import (
	"context"
	"errors"

	tracenoop "go.opentelemetry.io/otel/trace/noop"

	"go.opentelemetry.io/collector/component"
	"go.opentelemetry.io/collector/receiver"
)

func VerifC19Receiver() {
	led := vNewLedger()
	rec, err := NewObsReport(ObsReportSettings{
		ReceiverID: component.MustNewID("vrecv"),
		Transport:  "grpc",
		LongLivedCtx: vChoice("long-lived", 2) == 1,
		ReceiverCreateSettings: receiver.Settings{
			ID:                component.MustNewID("vrecv"),
			TelemetrySettings: component.TelemetrySettings{MeterProvider: vLedgerProvider{led: led}, TracerProvider: tracenoop.NewTracerProvider()},
		},
	})
	vAssert(err == nil, "receiver/obsreport-created")
	names := [3][2]string{
		{"otelcol_receiver_accepted_spans", "otelcol_receiver_refused_spans"},
		{"otelcol_receiver_accepted_metric_points", "otelcol_receiver_refused_metric_points"},
		{"otelcol_receiver_accepted_log_records", "otelcol_receiver_refused_log_records"},
	}
	var wantAcc, wantRef [3]int64
	K := vParam("ops")
	for i := 0; i < K; i++ {
		sig := vChoice("signal", 3)
		n := vNondetInt("items")
		vAssume(n >= 0 && n <= 1<<40)
		var derr error
		if vChoice("downstream-fails", 2) == 1 {
			derr = errors.New("refused downstream")
		}
		ctx := context.Background()
		switch sig {
		case 0:
			ctx = rec.StartTracesOp(ctx)
			rec.EndTracesOp(ctx, "fmt", n, derr)
		case 1:
			ctx = rec.StartMetricsOp(ctx)
			rec.EndMetricsOp(ctx, "fmt", n, derr)
		case 2:
			ctx = rec.StartLogsOp(ctx)
			rec.EndLogsOp(ctx, "fmt", n, derr)
		}
		if derr == nil {
			wantAcc[sig] += int64(n)
		} else {
			wantRef[sig] += int64(n)
		}
	}
	for s := 0; s < 3; s++ {
		vAssert(led.sum[names[s][0]] == wantAcc[s], "receiver/accepted-counter-of-own-signal")
		vAssert(led.sum[names[s][1]] == wantRef[s], "receiver/refused-counter-of-own-signal")
	}
	vReach("end")
}
