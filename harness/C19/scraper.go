package PKGNAME

// C19 (scraper side): a scrape of logs / metrics books accepted + refused = items scraped on the
// counters of its OWN signal.

import (
	"context"
	"errors"

	tracenoop "go.opentelemetry.io/otel/trace/noop"
	"go.uber.org/zap"

	"go.opentelemetry.io/collector/component"
	"go.opentelemetry.io/collector/consumer"
	"go.opentelemetry.io/collector/pdata/plog"
	"go.opentelemetry.io/collector/pdata/pmetric"
	"go.opentelemetry.io/collector/receiver"
	"go.opentelemetry.io/collector/receiver/receiverhelper"
	"go.opentelemetry.io/collector/scraper"
	"go.opentelemetry.io/collector/scraper/scrapererror"
)

type vc19LogsScraper struct {
	n   int
	err error
}

func (s vc19LogsScraper) Start(context.Context, component.Host) error { return nil }
func (s vc19LogsScraper) Shutdown(context.Context) error             { return nil }
func (s vc19LogsScraper) ScrapeLogs(context.Context) (plog.Logs, error) {
	ld := plog.NewLogs()
	lrs := ld.ResourceLogs().AppendEmpty().ScopeLogs().AppendEmpty().LogRecords()
	for i := 0; i < s.n; i++ {
		lrs.AppendEmpty()
	}
	return ld, s.err
}

type vc19MetricsScraper struct {
	n   int
	err error
}

func (s vc19MetricsScraper) Start(context.Context, component.Host) error { return nil }
func (s vc19MetricsScraper) Shutdown(context.Context) error             { return nil }
func (s vc19MetricsScraper) ScrapeMetrics(context.Context) (pmetric.Metrics, error) {
	md := pmetric.NewMetrics()
	dps := md.ResourceMetrics().AppendEmpty().ScopeMetrics().AppendEmpty().Metrics().AppendEmpty().SetEmptyGauge().DataPoints()
	for i := 0; i < s.n; i++ {
		dps.AppendEmpty()
	}
	return md, s.err
}

type vc19Sink struct {
	err   error
	got   *int
	takes bool // a consumer that takes ownership: it moves the data out of the payload it was given
}

func (s vc19Sink) Capabilities() consumer.Capabilities { return consumer.Capabilities{MutatesData: s.takes} }
func (s vc19Sink) ConsumeLogs(_ context.Context, ld plog.Logs) error {
	*s.got += ld.LogRecordCount()
	if s.takes {
		ld.ResourceLogs().MoveAndAppendTo(plog.NewLogs().ResourceLogs())
	}
	return s.err
}
func (s vc19Sink) ConsumeMetrics(_ context.Context, md pmetric.Metrics) error {
	*s.got += md.DataPointCount()
	if s.takes {
		md.ResourceMetrics().MoveAndAppendTo(pmetric.NewMetrics().ResourceMetrics())
	}
	return s.err
}

func vc19Obsrecv(led *vLedger) *receiverhelper.ObsReport {
	rec, err := receiverhelper.NewObsReport(receiverhelper.ObsReportSettings{
		ReceiverID: component.MustNewID("vscrape"),
		ReceiverCreateSettings: receiver.Settings{
			ID:                component.MustNewID("vscrape"),
			TelemetrySettings: component.TelemetrySettings{MeterProvider: vLedgerProvider{led: led}, TracerProvider: tracenoop.NewTracerProvider()},
		},
	})
	vAssert(err == nil, "scraper/obsreport-created")
	return rec
}

func VerifC19ScrapeLogs() {
	led := vNewLedger()
	var derr error
	if vChoice("downstream-fails", 2) == 1 {
		derr = errors.New("refused downstream")
	}
	// one or two scrapers, each returning its records with nothing, a plain error, or a (wrapped) partial error
	ns := 1 + vChoice("scrapers", vParam("maxScrapers"))
	var scs []scraper.Logs
	want := 0
	for i := 0; i < ns; i++ {
		n := 1 + vChoice("records", 3)
		serr, partial, _ := vc19ScrapeOutcome()
		if serr == nil || partial {
			want += n // a scraper that fails outright contributes nothing; partial data is forwarded
		}
		scs = append(scs, vc19LogsScraper{n: n, err: serr})
	}
	got := 0
	c := &controller[scraper.Logs]{obsrecv: vc19Obsrecv(led), scrapers: scs}
	scrapeLogs(c, vc19Sink{err: derr, got: &got, takes: vChoice("consumer-takes-ownership", 2) == 1})
	vAssert(got == want, "scrape-logs/consumer-offered-the-records-of-every-usable-scrape")
	acc, ref := led.sum["otelcol_receiver_accepted_log_records"], led.sum["otelcol_receiver_refused_log_records"]
	vReach("scraped")
	if want > 0 {
		vAssert(acc+ref == int64(want), "scrape-logs/accepted-plus-refused-on-log-counters-equals-records-scraped")
	}
	vAssert(led.sum["otelcol_receiver_accepted_metric_points"]+led.sum["otelcol_receiver_refused_metric_points"] == 0, "scrape-logs/nothing-booked-on-metric-point-counters")
	if want > 0 {
		vAssert((derr == nil) == (ref == 0), "scrape-logs/refused-iff-downstream-failed")
	}
	vReach("end")
}

func VerifC19ScrapeMetrics() {
	led := vNewLedger()
	var derr error
	if vChoice("downstream-fails", 2) == 1 {
		derr = errors.New("refused downstream")
	}
	ns := 1 + vChoice("scrapers", vParam("maxScrapers"))
	var scs []scraper.Metrics
	want := 0
	for i := 0; i < ns; i++ {
		n := 1 + vChoice("points", 3)
		serr, partial, _ := vc19ScrapeOutcome()
		if serr == nil || partial {
			want += n
		}
		scs = append(scs, vc19MetricsScraper{n: n, err: serr})
	}
	got := 0
	c := &controller[scraper.Metrics]{obsrecv: vc19Obsrecv(led), scrapers: scs}
	scrapeMetrics(c, vc19Sink{err: derr, got: &got, takes: vChoice("consumer-takes-ownership", 2) == 1})
	vAssert(got == want, "scrape-metrics/consumer-offered-the-points-of-every-usable-scrape")
	acc, ref := led.sum["otelcol_receiver_accepted_metric_points"], led.sum["otelcol_receiver_refused_metric_points"]
	vAssert(acc+ref == int64(want), "scrape-metrics/accepted-plus-refused-on-metric-counters-equals-points-scraped")
	if want > 0 {
		vAssert((derr == nil) == (ref == 0), "scrape-metrics/refused-iff-downstream-failed")
	}
	vAssert(led.sum["otelcol_receiver_accepted_log_records"]+led.sum["otelcol_receiver_refused_log_records"] == 0, "scrape-metrics/nothing-booked-on-log-counters")
	vReach("end")
}

type vc19Wrap struct{ err error }

func (w vc19Wrap) Error() string { return "scrape of one source failed: " + w.err.Error() }
func (w vc19Wrap) Unwrap() error { return w.err }

// vc19ScrapeOutcome: what the scraper returns with its n items: nothing, a plain error, a partial
// scrape error naming f failed items, or the same partial error wrapped by another error.
func vc19ScrapeOutcome() (err error, partial bool, failed int) {
	switch vChoice("scrape-outcome", 4) {
	case 0:
		return nil, false, 0
	case 1:
		return errors.New("scrape failed"), false, 0
	case 2:
		failed = 1 + vChoice("failed", 2)
		return scrapererror.NewPartialScrapeError(errors.New("some failed"), failed), true, failed
	default:
		failed = 1 + vChoice("failed", 2)
		return vc19Wrap{err: scrapererror.NewPartialScrapeError(errors.New("some failed"), failed)}, true, failed
	}
}

// VerifC19ScraperObs: the scraper's own counters (scraped / errored, per signal) as booked by the
// obs wrapper the controller puts around every scraper: a partial scrape error — recognised exactly
// as scrapererror.IsPartialScrapeError recognises it, so the controller that forwards the partial data
// and the counters agree — books its failed count as errored and the returned items as scraped; a
// success books the items as scraped; any other error books nothing.
func VerifC19ScraperObs() {
	led := vNewLedger()
	n := 1 + vChoice("items", 3)
	serr, partial, failed := vc19ScrapeOutcome()
	vAssert(scrapererror.IsPartialScrapeError(serr) == partial, "scraper-obs/harness-partial-classification")
	set := component.TelemetrySettings{Logger: zap.NewNop(), MeterProvider: vLedgerProvider{led: led}, TracerProvider: tracenoop.NewTracerProvider()}
	wantScraped, wantErrored := int64(0), int64(0)
	switch {
	case serr == nil:
		wantScraped = int64(n)
	case partial:
		wantScraped, wantErrored = int64(n), int64(failed)
	}
	if vChoice("signal", 2) == 0 {
		sc, err := wrapObsLogs(vc19LogsScraper{n: n, err: serr}, component.MustNewID("vrecv"), component.MustNewID("vscrape"), set)
		vAssert(err == nil, "scraper-obs/wrapper-created")
		ld, rerr := sc.ScrapeLogs(context.Background())
		vAssert(rerr == serr && ld.LogRecordCount() == n, "scraper-obs/logs/result-passed-through")
		vAssert(led.sum["otelcol_scraper_scraped_log_records"] == wantScraped, "scraper-obs/logs/scraped-counter")
		vAssert(led.sum["otelcol_scraper_errored_log_records"] == wantErrored, "scraper-obs/logs/errored-counter")
		vAssert(led.sum["otelcol_scraper_scraped_metric_points"]+led.sum["otelcol_scraper_errored_metric_points"] == 0, "scraper-obs/logs/nothing-on-metric-counters")
	} else {
		sc, err := wrapObsMetrics(vc19MetricsScraper{n: n, err: serr}, component.MustNewID("vrecv"), component.MustNewID("vscrape"), set)
		vAssert(err == nil, "scraper-obs/wrapper-created")
		md, rerr := sc.ScrapeMetrics(context.Background())
		vAssert(rerr == serr && md.DataPointCount() == n, "scraper-obs/metrics/result-passed-through")
		// the wrapper books md.MetricCount() on the "metric points" counter; the harness payload has one
		// metric, so only the error classification is asserted here, not the unit of the count
		if wantScraped > 0 {
			wantScraped = int64(md.MetricCount())
		}
		vAssert(led.sum["otelcol_scraper_scraped_metric_points"] == wantScraped, "scraper-obs/metrics/scraped-counter")
		vAssert(led.sum["otelcol_scraper_errored_metric_points"] == wantErrored, "scraper-obs/metrics/errored-counter")
		vAssert(led.sum["otelcol_scraper_scraped_log_records"]+led.sum["otelcol_scraper_errored_log_records"] == 0, "scraper-obs/metrics/nothing-on-log-counters")
	}
	vReach("end")
}
