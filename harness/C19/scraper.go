package PKGNAME

// C19 (scraper side): a scrape of logs / metrics books accepted + refused = items scraped on the
// counters of its OWN signal.

import (
	"context"
	"errors"

	tracenoop "go.opentelemetry.io/otel/trace/noop"

	"go.opentelemetry.io/collector/component"
	"go.opentelemetry.io/collector/consumer"
	"go.opentelemetry.io/collector/pdata/plog"
	"go.opentelemetry.io/collector/pdata/pmetric"
	"go.opentelemetry.io/collector/receiver"
	"go.opentelemetry.io/collector/receiver/receiverhelper"
	"go.opentelemetry.io/collector/scraper"
)

type vc19LogsScraper struct{ n int }

func (s vc19LogsScraper) Start(context.Context, component.Host) error { return nil }
func (s vc19LogsScraper) Shutdown(context.Context) error             { return nil }
func (s vc19LogsScraper) ScrapeLogs(context.Context) (plog.Logs, error) {
	ld := plog.NewLogs()
	lrs := ld.ResourceLogs().AppendEmpty().ScopeLogs().AppendEmpty().LogRecords()
	for i := 0; i < s.n; i++ {
		lrs.AppendEmpty()
	}
	return ld, nil
}

type vc19MetricsScraper struct{ n int }

func (s vc19MetricsScraper) Start(context.Context, component.Host) error { return nil }
func (s vc19MetricsScraper) Shutdown(context.Context) error             { return nil }
func (s vc19MetricsScraper) ScrapeMetrics(context.Context) (pmetric.Metrics, error) {
	md := pmetric.NewMetrics()
	dps := md.ResourceMetrics().AppendEmpty().ScopeMetrics().AppendEmpty().Metrics().AppendEmpty().SetEmptyGauge().DataPoints()
	for i := 0; i < s.n; i++ {
		dps.AppendEmpty()
	}
	return md, nil
}

type vc19Sink struct{ err error }

func (s vc19Sink) Capabilities() consumer.Capabilities                 { return consumer.Capabilities{} }
func (s vc19Sink) ConsumeLogs(context.Context, plog.Logs) error         { return s.err }
func (s vc19Sink) ConsumeMetrics(context.Context, pmetric.Metrics) error { return s.err }

func vc19Obsrecv(led *vLedger) *receiverhelper.ObsReport {
	rec, err := receiverhelper.NewObsReport(receiverhelper.ObsReportSettings{
		ReceiverID: component.MustNewID("vscrape"),
		ReceiverCreateSettings: receiver.Settings{
			ID:                component.MustNewID("vscrape"),
			TelemetrySettings: component.TelemetrySettings{MeterProvider: vLedgerProvider{led: led}, TracerProvider: tracenoop.NewTracerProvider()},
		},
	})
	vAssert(err == nil, "scraper/obsreport-created")
	return rec
}

func VerifC19ScrapeLogs() {
	led := vNewLedger()
	n := 1 + vChoice("records", 3)
	var derr error
	if vChoice("downstream-fails", 2) == 1 {
		derr = errors.New("refused downstream")
	}
	c := &controller[scraper.Logs]{obsrecv: vc19Obsrecv(led), scrapers: []scraper.Logs{vc19LogsScraper{n: n}}}
	scrapeLogs(c, vc19Sink{err: derr})
	acc, ref := led.sum["otelcol_receiver_accepted_log_records"], led.sum["otelcol_receiver_refused_log_records"]
	vReach("scraped")
	vAssert(acc+ref == int64(n), "scrape-logs/accepted-plus-refused-on-log-counters-equals-records-scraped")
	vAssert((derr == nil) == (ref == 0), "scrape-logs/refused-iff-downstream-failed")
	vAssert(led.sum["otelcol_receiver_accepted_metric_points"]+led.sum["otelcol_receiver_refused_metric_points"] == 0, "scrape-logs/nothing-booked-on-metric-point-counters")
	vReach("end")
}

func VerifC19ScrapeMetrics() {
	led := vNewLedger()
	n := 1 + vChoice("points", 3)
	var derr error
	if vChoice("downstream-fails", 2) == 1 {
		derr = errors.New("refused downstream")
	}
	c := &controller[scraper.Metrics]{obsrecv: vc19Obsrecv(led), scrapers: []scraper.Metrics{vc19MetricsScraper{n: n}}}
	scrapeMetrics(c, vc19Sink{err: derr})
	acc, ref := led.sum["otelcol_receiver_accepted_metric_points"], led.sum["otelcol_receiver_refused_metric_points"]
	vAssert(acc+ref == int64(n), "scrape-metrics/accepted-plus-refused-on-metric-counters-equals-points-scraped")
	vAssert((derr == nil) == (ref == 0), "scrape-metrics/refused-iff-downstream-failed")
	vAssert(led.sum["otelcol_receiver_accepted_log_records"]+led.sum["otelcol_receiver_refused_log_records"] == 0, "scrape-metrics/nothing-booked-on-log-counters")
	vReach("end")
}
