package PKGNAME

// A metric.MeterProvider whose counters write into a plain ledger (name -> sum), so that the
// self-telemetry counters of the code under test can be read back by the harness.  Everything
// else is the OTel no-op implementation.

import (
	"context"

	"go.opentelemetry.io/otel/metric"
	"go.opentelemetry.io/otel/metric/noop"
)

type vLedger struct {
	sum       map[string]int64
	calls     map[string]int
	callbacks []metric.Callback
	observed  map[string]int64
}

func vNewLedger() *vLedger { return &vLedger{sum: map[string]int64{}, calls: map[string]int{}} }

type vLedgerProvider struct {
	noop.MeterProvider
	led *vLedger
}

func (p vLedgerProvider) Meter(string, ...metric.MeterOption) metric.Meter {
	return vLedgerMeter{led: p.led}
}

type vLedgerMeter struct {
	noop.Meter
	led *vLedger
}

func (m vLedgerMeter) Int64Counter(name string, _ ...metric.Int64CounterOption) (metric.Int64Counter, error) {
	return &vLedgerCounter{name: name, led: m.led}, nil
}

type vLedgerCounter struct {
	noop.Int64Counter
	name string
	led  *vLedger
}

func (c *vLedgerCounter) Add(_ context.Context, v int64, _ ...metric.AddOption) {
	c.led.sum[c.name] += v
	c.led.calls[c.name]++
}

// ---- observable gauges: callbacks are kept and can be run by the harness --------------------

type vLedgerGauge struct {
	noop.Int64ObservableGauge
	name string
}

func (m vLedgerMeter) Int64ObservableGauge(name string, _ ...metric.Int64ObservableGaugeOption) (metric.Int64ObservableGauge, error) {
	return &vLedgerGauge{name: name}, nil
}

type vLedgerReg struct{ noop.Registration }

func (m vLedgerMeter) RegisterCallback(f metric.Callback, _ ...metric.Observable) (metric.Registration, error) {
	m.led.callbacks = append(m.led.callbacks, f)
	return vLedgerReg{}, nil
}

type vLedgerObserver struct {
	noop.Observer
	led *vLedger
}

func (o vLedgerObserver) ObserveInt64(inst metric.Int64Observable, v int64, _ ...metric.ObserveOption) {
	if g, ok := inst.(*vLedgerGauge); ok {
		o.led.observed[g.name] = v
	}
}

// vCollect runs every registered callback once, as a metric reader would.
func (l *vLedger) vCollect() {
	if l.observed == nil {
		l.observed = map[string]int64{}
	}
	for _, cb := range l.callbacks {
		_ = cb(context.Background(), vLedgerObserver{led: l})
	}
}
