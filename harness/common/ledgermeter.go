package PKGNAME

// A metric.MeterProvider whose counters write into a plain ledger (name -> sum), so that the
// self-telemetry counters of the code under test can be read back by the harness.  Everything
// else is the OTel no-op implementation.

import (
	"context"

	"go.opentelemetry.io/otel/metric"
	"go.opentelemetry.io/otel/metric/noop"
)

type vLedger struct {
	sum   map[string]int64
	calls map[string]int
}

func vNewLedger() *vLedger { return &vLedger{sum: map[string]int64{}, calls: map[string]int{}} }

type vLedgerProvider struct {
	noop.MeterProvider
	led *vLedger
}

func (p vLedgerProvider) Meter(string, ...metric.MeterOption) metric.Meter {
	return vLedgerMeter{led: p.led}
}

type vLedgerMeter struct {
	noop.Meter
	led *vLedger
}

func (m vLedgerMeter) Int64Counter(name string, _ ...metric.Int64CounterOption) (metric.Int64Counter, error) {
	return &vLedgerCounter{name: name, led: m.led}, nil
}

type vLedgerCounter struct {
	noop.Int64Counter
	name string
	led  *vLedger
}

func (c *vLedgerCounter) Add(_ context.Context, v int64, _ ...metric.AddOption) {
	c.led.sum[c.name] += v
	c.led.calls[c.name]++
}
