package PKGNAME

// Builders and flatteners for tagged pdata payloads, shared by the C04 and C17 harnesses: every
// item and every context field (resource attribute, scope name/version, both schema URLs, metric
// name/unit/description/type/temporality/monotonicity/metadata) carries a distinct tag.

import (
	"strconv"

	"go.opentelemetry.io/collector/pdata/pcommon"
	"go.opentelemetry.io/collector/pdata/plog"
	"go.opentelemetry.io/collector/pdata/pmetric"
	"go.opentelemetry.io/collector/pdata/ptrace"
)

// shape bounds of the builders (harnesses may lower them before building)
var vc04MaxR, vc04MaxS = 2, 2

// number of metric types the metrics builder chooses from (5 = all)
var vc04MetricTypes = 5

// metrics per scope the metrics builder chooses from
var vc04MaxM = 2

type vc04LogItem struct {
	id                        uint64
	rattr, rschema            string
	sname, sversion, sschema  string
}

// vc04BuildLogs builds a payload of nr resources x ns scopes with 1..maxL records per scope.
// With bytesMode the record bodies are strings of symbolic length (content unobservable).
func vc04BuildLogs(tag string, nextID *uint64, maxL int, bytesMode bool, bodyMax int) (plog.Logs, []vc04LogItem) {
	ld := plog.NewLogs()
	var items []vc04LogItem
	maxR, symLeft := vc04MaxR, 0
	if bytesMode {
		maxR, symLeft = vParam("maxR"), vParam("symBodies")
	}
	nr := 1 + vChoice(tag+"-resources", maxR)
	for r := 0; r < nr; r++ {
		rl := ld.ResourceLogs().AppendEmpty()
		rattr := tag + "r" + strconv.Itoa(r)
		rl.Resource().Attributes().PutStr("res", rattr)
		rl.SetSchemaUrl("rs:" + rattr)
		ns := 1 + vChoice(tag+"-scopes", vc04MaxS)
		for s := 0; s < ns; s++ {
			sl := rl.ScopeLogs().AppendEmpty()
			sname := rattr + "s" + strconv.Itoa(s)
			sl.Scope().SetName(sname)
			sl.Scope().SetVersion("v" + sname)
			sl.SetSchemaUrl("ss:" + sname)
			nl := 1 + vChoice(tag+"-records", maxL)
			for l := 0; l < nl; l++ {
				lr := sl.LogRecords().AppendEmpty()
				*nextID++
				lr.SetTimestamp(pcommon.Timestamp(*nextID))
				if bytesMode {
					if symLeft > 0 {
						symLeft--
						lr.Body().SetStr(vNondetLenString("body", bodyMax))
					} else {
						lr.Body().SetStr("abc")
					}
				}
				items = append(items, vc04LogItem{id: *nextID, rattr: rattr, rschema: "rs:" + rattr, sname: sname, sversion: "v" + sname, sschema: "ss:" + sname})
			}
		}
	}
	return ld, items
}

func vc04FlattenLogs(ld plog.Logs) []vc04LogItem {
	var out []vc04LogItem
	for r := 0; r < ld.ResourceLogs().Len(); r++ {
		rl := ld.ResourceLogs().At(r)
		rattr := ""
		if v, ok := rl.Resource().Attributes().Get("res"); ok {
			rattr = v.Str()
		}
		for s := 0; s < rl.ScopeLogs().Len(); s++ {
			sl := rl.ScopeLogs().At(s)
			for l := 0; l < sl.LogRecords().Len(); l++ {
				out = append(out, vc04LogItem{
					id: uint64(sl.LogRecords().At(l).Timestamp()), rattr: rattr, rschema: rl.SchemaUrl(),
					sname: sl.Scope().Name(), sversion: sl.Scope().Version(), sschema: sl.SchemaUrl(),
				})
			}
		}
	}
	return out
}

type vc04Point struct {
	id                               uint64
	rattr, rschema                   string
	sname, sschema                   string
	mname, munit, mdesc, mmeta       string
	mtype                            pmetric.MetricType
	temporality                      pmetric.AggregationTemporality
	monotonic                        bool
}

func vc04TypeName(t pmetric.MetricType) string {
	switch t {
	case pmetric.MetricTypeGauge:
		return "gauge"
	case pmetric.MetricTypeSum:
		return "sum"
	case pmetric.MetricTypeHistogram:
		return "histogram"
	case pmetric.MetricTypeExponentialHistogram:
		return "exphistogram"
	case pmetric.MetricTypeSummary:
		return "summary"
	}
	return "empty"
}

func vc04BuildMetrics(tag string, nextID *uint64, maxP int) (pmetric.Metrics, []vc04Point) {
	md := pmetric.NewMetrics()
	var pts []vc04Point
	nr := 1 + vChoice(tag+"-resources", vParam("maxR"))
	for r := 0; r < nr; r++ {
		rm := md.ResourceMetrics().AppendEmpty()
		rattr := tag + "r" + strconv.Itoa(r)
		rm.Resource().Attributes().PutStr("res", rattr)
		rm.SetSchemaUrl("rs:" + rattr)
		sm := rm.ScopeMetrics().AppendEmpty()
		sname := rattr + "s0"
		sm.Scope().SetName(sname)
		sm.SetSchemaUrl("ss:" + sname)
		nm := 1 + vChoice(tag+"-metrics", vc04MaxM)
		for m := 0; m < nm; m++ {
			me := sm.Metrics().AppendEmpty()
			mname := sname + "m" + strconv.Itoa(m)
			me.SetName(mname)
			me.SetUnit("u:" + mname)
			me.SetDescription("d:" + mname)
			me.Metadata().PutStr("meta", "x:"+mname)
			base := vc04Point{rattr: rattr, rschema: "rs:" + rattr, sname: sname, sschema: "ss:" + sname,
				mname: mname, munit: "u:" + mname, mdesc: "d:" + mname, mmeta: "x:" + mname}
			np := 1 + vChoice(tag+"-points", maxP)
			add := func() uint64 { *nextID++; p := base; p.id = *nextID; pts = append(pts, p); return *nextID }
			switch vChoice(tag+"-type", vc04MetricTypes) {
			case 0:
				base.mtype = pmetric.MetricTypeGauge
				g := me.SetEmptyGauge()
				for i := 0; i < np; i++ {
					g.DataPoints().AppendEmpty().SetTimestamp(pcommon.Timestamp(add()))
				}
			case 1:
				base.mtype = pmetric.MetricTypeSum
				base.temporality = pmetric.AggregationTemporalityCumulative
				base.monotonic = true
				s := me.SetEmptySum()
				s.SetAggregationTemporality(pmetric.AggregationTemporalityCumulative)
				s.SetIsMonotonic(true)
				for i := 0; i < np; i++ {
					s.DataPoints().AppendEmpty().SetTimestamp(pcommon.Timestamp(add()))
				}
			case 2:
				base.mtype = pmetric.MetricTypeHistogram
				base.temporality = pmetric.AggregationTemporalityDelta
				h := me.SetEmptyHistogram()
				h.SetAggregationTemporality(pmetric.AggregationTemporalityDelta)
				for i := 0; i < np; i++ {
					h.DataPoints().AppendEmpty().SetTimestamp(pcommon.Timestamp(add()))
				}
			case 3:
				base.mtype = pmetric.MetricTypeExponentialHistogram
				base.temporality = pmetric.AggregationTemporalityCumulative
				h := me.SetEmptyExponentialHistogram()
				h.SetAggregationTemporality(pmetric.AggregationTemporalityCumulative)
				for i := 0; i < np; i++ {
					h.DataPoints().AppendEmpty().SetTimestamp(pcommon.Timestamp(add()))
				}
			case 4:
				base.mtype = pmetric.MetricTypeSummary
				s := me.SetEmptySummary()
				for i := 0; i < np; i++ {
					s.DataPoints().AppendEmpty().SetTimestamp(pcommon.Timestamp(add()))
				}
			}
		}
	}
	return md, pts
}

func vc04FlattenMetrics(md pmetric.Metrics) []vc04Point {
	var out []vc04Point
	for r := 0; r < md.ResourceMetrics().Len(); r++ {
		rm := md.ResourceMetrics().At(r)
		rattr := ""
		if v, ok := rm.Resource().Attributes().Get("res"); ok {
			rattr = v.Str()
		}
		for s := 0; s < rm.ScopeMetrics().Len(); s++ {
			sm := rm.ScopeMetrics().At(s)
			for m := 0; m < sm.Metrics().Len(); m++ {
				me := sm.Metrics().At(m)
				base := vc04Point{rattr: rattr, rschema: rm.SchemaUrl(), sname: sm.Scope().Name(), sschema: sm.SchemaUrl(),
					mname: me.Name(), munit: me.Unit(), mdesc: me.Description(), mtype: me.Type()}
				if v, ok := me.Metadata().Get("meta"); ok {
					base.mmeta = v.Str()
				}
				emit := func(ts pcommon.Timestamp) { p := base; p.id = uint64(ts); out = append(out, p) }
				switch me.Type() {
				case pmetric.MetricTypeGauge:
					for i := 0; i < me.Gauge().DataPoints().Len(); i++ {
						emit(me.Gauge().DataPoints().At(i).Timestamp())
					}
				case pmetric.MetricTypeSum:
					base.temporality, base.monotonic = me.Sum().AggregationTemporality(), me.Sum().IsMonotonic()
					for i := 0; i < me.Sum().DataPoints().Len(); i++ {
						emit(me.Sum().DataPoints().At(i).Timestamp())
					}
				case pmetric.MetricTypeHistogram:
					base.temporality = me.Histogram().AggregationTemporality()
					for i := 0; i < me.Histogram().DataPoints().Len(); i++ {
						emit(me.Histogram().DataPoints().At(i).Timestamp())
					}
				case pmetric.MetricTypeExponentialHistogram:
					base.temporality = me.ExponentialHistogram().AggregationTemporality()
					for i := 0; i < me.ExponentialHistogram().DataPoints().Len(); i++ {
						emit(me.ExponentialHistogram().DataPoints().At(i).Timestamp())
					}
				case pmetric.MetricTypeSummary:
					for i := 0; i < me.Summary().DataPoints().Len(); i++ {
						emit(me.Summary().DataPoints().At(i).Timestamp())
					}
				}
			}
		}
	}
	return out
}

type vc04Span struct {
	id                       uint64
	rattr, rschema           string
	sname, sversion, sschema string
}

func vc04BuildTraces(tag string, nextID *uint64, maxL int) (ptrace.Traces, []vc04Span) {
	td := ptrace.NewTraces()
	var items []vc04Span
	nr := 1 + vChoice(tag+"-resources", 2)
	for r := 0; r < nr; r++ {
		rs := td.ResourceSpans().AppendEmpty()
		rattr := tag + "r" + strconv.Itoa(r)
		rs.Resource().Attributes().PutStr("res", rattr)
		rs.SetSchemaUrl("rs:" + rattr)
		ns := 1 + vChoice(tag+"-scopes", 2)
		for s := 0; s < ns; s++ {
			ss := rs.ScopeSpans().AppendEmpty()
			sname := rattr + "s" + strconv.Itoa(s)
			ss.Scope().SetName(sname)
			ss.Scope().SetVersion("v" + sname)
			ss.SetSchemaUrl("ss:" + sname)
			nl := 1 + vChoice(tag+"-spans", maxL)
			for l := 0; l < nl; l++ {
				sp := ss.Spans().AppendEmpty()
				*nextID++
				sp.SetStartTimestamp(pcommon.Timestamp(*nextID))
				items = append(items, vc04Span{id: *nextID, rattr: rattr, rschema: "rs:" + rattr, sname: sname, sversion: "v" + sname, sschema: "ss:" + sname})
			}
		}
	}
	return td, items
}

func vc04FlattenTraces(td ptrace.Traces) []vc04Span {
	var out []vc04Span
	for r := 0; r < td.ResourceSpans().Len(); r++ {
		rs := td.ResourceSpans().At(r)
		rattr := ""
		if v, ok := rs.Resource().Attributes().Get("res"); ok {
			rattr = v.Str()
		}
		for s := 0; s < rs.ScopeSpans().Len(); s++ {
			ss := rs.ScopeSpans().At(s)
			for l := 0; l < ss.Spans().Len(); l++ {
				out = append(out, vc04Span{id: uint64(ss.Spans().At(l).StartTimestamp()), rattr: rattr, rschema: rs.SchemaUrl(),
					sname: ss.Scope().Name(), sversion: ss.Scope().Version(), sschema: ss.SchemaUrl()})
			}
		}
	}
	return out
}

