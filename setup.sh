#!/bin/sh
# Builds the verification engine offline from the sources in /verif/engine (x/tools v0.29.0 from the module cache).
set -e
cd "$(dirname "$0")/engine"
export GOFLAGS=-mod=mod GOPROXY=off GOSUMDB=off GOTOOLCHAIN=local
mkdir -p ../bin
go build -o ../bin/gosmt ./cmd/gosmt
echo "built $(cd .. && pwd)/bin/gosmt"
