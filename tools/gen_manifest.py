#!/usr/bin/env python3
"""Regenerates /verif/MANIFEST.json from checks/*.json and tools/manifest_meta.json."""
import json, os, glob
root = os.path.dirname(os.path.dirname(os.path.abspath(__file__)))
meta = json.load(open(os.path.join(root, 'tools', 'manifest_meta.json')))
props = [json.loads(l) for l in open(os.path.join(root, 'properties.jsonl'))]
checks, na = [], []
claimed = set()
for p in props:
    pid = p['id']
    spec_path = os.path.join(root, 'checks', pid + '.json')
    m = meta.get(pid, {})
    if os.path.exists(spec_path) and m.get('claimed'):
        claimed.add(pid)
        checks.append({
            "property_id": pid,
            "quick_cmd": "./check %s --tier quick" % pid,
            "thorough_cmd": "./check %s --tier thorough" % pid,
            "evidence_file": "/verif/evidence/%s.json" % pid,
            "replay_cmd_template": "./bin/gosmt replay {path}",
            "engine": "gosmt",
            "level_claimed": {"category": "model_checking", "text": m['text'], "design_ref": m.get('design_ref', 'DESIGN.md §4 ' + pid)},
            "level_note": m['note'],
            "technique": m.get('technique', "bounded symbolic execution of the real go/ssa code (gosmt), every branch/assertion decided by SMT (z3/cvc5 bit-vectors); counterexamples replayed against the real build"),
        })
    else:
        na.append({"property_id": pid, "reason": m.get('na_reason', 'not claimed')})
man = {
    "version": 1,
    "setup_cmd": "./setup.sh",
    "hooks": {
        "guard": "verif",
        "enable": "no hooks are needed: harnesses are injected as in-memory overlay files (go/packages Overlay, go test -overlay); nothing in /repo is built with a tag",
        "baseline_off_cmd": "cd /repo && for m in $(cat /w/out/gomods.txt); do (cd /repo/$m && go test -vet=off -count=1 -timeout 25m ./...); done",
        "source_commits": meta.get('_hook_commits', []),
        "add_only": True,
    },
    "engines": [{
        "name": "gosmt", "path": "/verif/engine",
        "serves_properties": sorted(claimed),
        "kind_free_text": "symbolic executor for Go SSA written for this task (x/tools v0.29.0 go/ssa -> SMT-LIB2 bit-vector terms; z3 4.8.12 / cvc5 1.0 incremental processes; path exploration by re-execution; scheduler for goroutines/channels/sync with bounded preemptions; native replay with go test -overlay)",
    }],
    "checks": checks,
    "not_applicable": na,
    "notes": meta.get('_notes', ''),
}
json.dump(man, open(os.path.join(root, 'MANIFEST.json'), 'w'), indent=1)
print("claimed:", sorted(claimed), "n/a:", [x['property_id'] for x in na])
