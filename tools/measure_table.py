#!/usr/bin/env python3
"""Rebuilds the measurements table of DESIGN.md §I.5 from the SUMMARY lines of the last `tools/run_all.sh quick`
   run (/tmp/runall_<ID>.log)."""
import re, glob, os, json
rows = []
tot = 0.0
for f in sorted(glob.glob('/tmp/runall_C*.log')):
    pid = os.path.basename(f)[7:-4]
    s = [l for l in open(f) if l.startswith('SUMMARY')]
    if not s:
        rows.append('| %s | — | — | — | — | — | — | — |' % pid); continue
    l = s[-1]
    g = lambda k: re.search(k + r'=([0-9./]+)', l).group(1)
    wall = float(re.search(r'wall=([0-9.]+)s', l).group(1)); tot += wall
    rows.append('| %s | %s | %.0f s | %s | %s | %s | %s | %s |' % (pid, g('units'), wall, g('paths'), g('obligations'), g('queries'), g('validated_natively'), g('known')))
table = '| id | units | wall | paths | assertions discharged / checked | solver queries | nat. | known findings |\n|---|---|---|---|---|---|---|---|\n' + '\n'.join(rows)
print(table)
print('total wall: %.0f s' % tot)
p = '/verif/DESIGN.md'
d = open(p).read()
a = d.index('| id | wall | paths |') if '| id | wall | paths |' in d else d.index('| id | units | wall |')
b = d.index('\n\n', a)
d = d[:a] + table + d[b:]
open(p, 'w').write(d)
