#!/usr/bin/env python3
"""Regression run of the seed matrix against the current checks: every seed that was caught is applied to a scratch
   worktree of /repo's HEAD and only the units that caught it are re-run (quick tier).  Adds meta['recheck']."""
import json, os, subprocess, sys, glob, time
WT = "/tmp/seedrecheck"
subprocess.run("git -C /repo worktree remove --force %s 2>/dev/null; git -C /repo worktree add -q --detach %s HEAD" % (WT, WT), shell=True)
head = subprocess.check_output("git -C /repo rev-parse --short HEAD", shell=True).decode().strip()
only = set(sys.argv[1:])
bad = []
for d in sorted(glob.glob('/verif/seeded/*-*')):
    key = os.path.basename(d)
    if only and key not in only:
        continue
    mp = d + '/meta.json'
    m = json.load(open(mp))
    cr = m.get('check_result', {})
    if not cr.get('caught'):
        continue
    units = sorted({l.split('unit=')[1].split(' ')[0] for l in cr.get('labels', []) if 'unit=' in l})
    if not units:
        continue
    subprocess.run("git -C %s checkout -q -- ." % WT, shell=True)
    if subprocess.run("git -C %s apply %s/patch.diff" % (WT, d), shell=True).returncode != 0:
        m['recheck'] = {'repo_head': head, 'error': 'patch does not apply'}
        json.dump(m, open(mp, 'w'), indent=1); bad.append(key); print(key, 'NOAPPLY', flush=True); continue
    t0 = time.time()
    p = subprocess.run("VERIF_REPO=%s timeout 1500 ./check %s --tier quick --unit %s" % (WT, m['property'], ','.join(units)), shell=True, cwd='/verif', stdout=subprocess.PIPE, stderr=subprocess.DEVNULL)
    vio = [l for l in p.stdout.decode(errors='replace').splitlines() if l.startswith('VIOLATION')]
    m['recheck'] = {'repo_head': head, 'units': units, 'caught': bool(vio), 'exit_code': p.returncode, 'wall_s': round(time.time() - t0, 1)}
    json.dump(m, open(mp, 'w'), indent=1)
    if not vio:
        bad.append(key)
    print(key, 'CAUGHT' if vio else 'LOST', units, round(time.time() - t0), flush=True)
subprocess.run("git -C %s checkout -q -- . ; git -C /repo worktree remove --force %s" % (WT, WT), shell=True)
print('lost or not applicable:', bad)
