#!/usr/bin/env python3
"""Records the quick-check outcome of every round-4 seed (logs of /tmp/r4/runseeds.sh) in seeded/<id>/meta.json
and prints the markdown table for DESIGN.md §I.7."""
import json, glob, os, re, sys
logdir = sys.argv[1] if len(sys.argv) > 1 else '/tmp/r4'
rows = []
for f in sorted(glob.glob('/verif/seeded/*/meta.json')):
    m = json.load(open(f))
    if m.get('round') != 4:
        continue
    key = os.path.basename(os.path.dirname(f))
    log = os.path.join(logdir, 'seedrun_%s.log' % key)
    if os.path.exists(log):
        txt = open(log, errors='replace').read()
        labels = []
        for mm in re.finditer(r'^  unit=(\S+) kind=(\S+) label=(\S+)', txt, re.M):
            l = '%s: %s' % (mm.group(1), mm.group(3))
            if l not in labels:
                labels.append(l)
        caught = bool(re.search(r'^VIOLATION ', txt, re.M))
        summ = re.search(r'^SUMMARY.*$', txt, re.M)
        m['check_result'] = {"cmd": "git apply patch.diff (scratch worktree, VERIF_REPO) && ./check %s --tier quick" % m['property'],
                             "caught": caught, "first_failing_assertions": labels[:4], "summary": summ.group(0)[:300] if summ else ""}
        json.dump(m, open(f, 'w'), indent=1)
    cr = m.get('check_result', {})
    rows.append('| %s | %s | %s | %s | %s |' % (key, m.get('change', ''), m.get('needs_to_manifest', ''),
                'caught' if cr.get('caught') else '**missed**', '; '.join('`%s`' % l for l in cr.get('first_failing_assertions', [])[:2]) or '—'))
print('| seed | change | what it needs in order to manifest | quick check | first failing assertion(s) |')
print('|---|---|---|---|---|')
print('\n'.join(rows))
