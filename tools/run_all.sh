#!/bin/sh
# Runs every claimed check (quick tier by default) against /repo's working tree; prints one line per property.
cd "$(dirname "$0")/.."
tier=${1:-quick}
for id in $(python3 -c "import json;print(' '.join(c['property_id'] for c in json.load(open('MANIFEST.json'))['checks']))"); do
  start=$(date +%s)
  ./check $id --tier $tier > /tmp/runall_$id.log 2>&1
  rc=$?
  end=$(date +%s)
  echo "$id rc=$rc $((end-start))s $(grep -c '^VIOLATION' /tmp/runall_$id.log) violations $(grep -c '^KNOWN-FINDING' /tmp/runall_$id.log) known $(grep -c '^INCONCLUSIVE' /tmp/runall_$id.log) inconclusive | $(grep '^SUMMARY' /tmp/runall_$id.log | cut -c1-200)"
done
