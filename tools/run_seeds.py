#!/usr/bin/env python3
"""Applies each confirmed seed to /repo, runs the property's quick check, records whether it raised a
   VIOLATION (beyond the known findings), and reverts /repo.  Updates /verif/seeded/<id>-<sub>/meta.json."""
import json, os, subprocess, sys, glob, time
only = set(sys.argv[1:])
rows = []
# the seeds are applied to a scratch worktree of /repo's HEAD (VERIF_REPO), never to /repo itself
WT = "/tmp/seedrun"
subprocess.run("git -C /repo worktree remove --force %s 2>/dev/null; git -C /repo worktree add -q --detach %s HEAD" % (WT, WT), shell=True)
for d in sorted(glob.glob("/verif/seeded/*-*")):
    meta_p = d + "/meta.json"
    if not os.path.exists(meta_p):
        continue
    meta = json.load(open(meta_p))
    key = os.path.basename(d)
    pid = meta["property"]
    if only and key not in only and pid not in only:
        continue
    subprocess.run("git -C %s checkout -q -- ." % WT, shell=True)
    rc = subprocess.run("git -C %s apply %s/patch.diff" % (WT, d), shell=True).returncode
    if rc != 0:
        meta["check_result"] = {"error": "patch does not apply to /repo HEAD"}
        json.dump(meta, open(meta_p, "w"), indent=1); continue
    t0 = time.time()
    p = subprocess.run("VERIF_REPO=%s timeout 2400 ./check %s --tier quick" % (WT, pid), shell=True, cwd="/verif", stdout=subprocess.PIPE, stderr=subprocess.DEVNULL)
    out = p.stdout.decode(errors="replace")
    subprocess.run("git -C %s checkout -q -- ." % WT, shell=True)
    vio = [l for l in out.splitlines() if l.startswith("VIOLATION")]
    labels = [l.strip() for l in out.splitlines() if l.strip().startswith("unit=")]
    meta["check_result"] = {"cmd": "git -C /repo apply patch.diff && ./check %s --tier quick && git -C /repo checkout -- ." % pid,
        "exit_code": p.returncode, "caught": len(vio) > 0, "violation_lines": len(vio),
        "labels": [l.split(" msg=")[0] for l in labels][:8], "wall_s": round(time.time() - t0, 1)}
    json.dump(meta, open(meta_p, "w"), indent=1)
    rows.append((key, meta["check_result"]["caught"], meta["check_result"]["labels"][:2]))
    print(key, "CAUGHT" if vio else "missed", meta["check_result"]["labels"][:2], flush=True)
# the evidence files were rewritten by runs on mutated trees: they must be regenerated on the clean tree afterwards
subprocess.run("git -C /repo worktree remove --force %s" % WT, shell=True)
print("NOTE: re-run the quick checks on the clean tree to regenerate evidence files")
