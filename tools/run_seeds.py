#!/usr/bin/env python3
"""Applies each confirmed seed to /repo, runs the property's quick check, records whether it raised a
   VIOLATION (beyond the known findings), and reverts /repo.  Updates /verif/seeded/<id>-<sub>/meta.json."""
import json, os, subprocess, sys, glob, time
only = set(sys.argv[1:])
rows = []
for d in sorted(glob.glob("/verif/seeded/*-*")):
    meta_p = d + "/meta.json"
    if not os.path.exists(meta_p):
        continue
    meta = json.load(open(meta_p))
    key = os.path.basename(d)
    pid = meta["property"]
    if only and key not in only and pid not in only:
        continue
    st = subprocess.run("git -C /repo status --porcelain --untracked-files=no", shell=True, stdout=subprocess.PIPE).stdout.decode().strip()
    if st:
        print("refusing: /repo has local modifications:\n" + st); sys.exit(2)
    rc = subprocess.run("git -C /repo apply %s/patch.diff" % d, shell=True).returncode
    if rc != 0:
        meta["check_result"] = {"error": "patch does not apply to /repo HEAD"}
        json.dump(meta, open(meta_p, "w"), indent=1); continue
    t0 = time.time()
    p = subprocess.run("timeout 1800 ./check %s --tier quick" % pid, shell=True, cwd="/verif", stdout=subprocess.PIPE, stderr=subprocess.DEVNULL)
    out = p.stdout.decode(errors="replace")
    subprocess.run("git -C /repo checkout -- .", shell=True)
    vio = [l for l in out.splitlines() if l.startswith("VIOLATION")]
    labels = [l.strip() for l in out.splitlines() if l.strip().startswith("unit=")]
    meta["check_result"] = {"cmd": "git -C /repo apply patch.diff && ./check %s --tier quick && git -C /repo checkout -- ." % pid,
        "exit_code": p.returncode, "caught": len(vio) > 0, "violation_lines": len(vio),
        "labels": [l.split(" msg=")[0] for l in labels][:8], "wall_s": round(time.time() - t0, 1)}
    json.dump(meta, open(meta_p, "w"), indent=1)
    rows.append((key, meta["check_result"]["caught"], meta["check_result"]["labels"][:2]))
    print(key, "CAUGHT" if vio else "missed", meta["check_result"]["labels"][:2], flush=True)
# the evidence files were rewritten by runs on mutated trees: they must be regenerated on the clean tree afterwards
print("NOTE: re-run the quick checks on the clean tree to regenerate evidence files")
