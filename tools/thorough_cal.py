#!/usr/bin/env python3
"""Runs the thorough tier unit by unit (timeout per unit) and prints wall time / paths / verdict lines,
   to calibrate thorough bounds.  usage: thorough_cal.py [ID[:unit,unit] ...]"""
import json, subprocess, sys, time, glob, os, re
ids = sys.argv[1:] or [os.path.basename(p)[:-5] for p in sorted(glob.glob('/verif/checks/C*.json'))]
os.makedirs('/tmp/thcal', exist_ok=True)
for arg in ids:
    pid, _, only = arg.partition(':')
    spec = json.load(open('/verif/checks/%s.json' % pid))
    for u in spec['units']:
        if only and u['name'] not in only.split(','):
            continue
        t0 = time.time()
        log = '/tmp/thcal/%s_%s.log' % (pid, u['name'])
        with open(log, 'w') as f:
            pr = subprocess.Popen(['./check', pid, '--tier', 'thorough', '--unit', u['name'], '-v'], cwd='/verif', stdout=f, stderr=subprocess.STDOUT, start_new_session=True)
            try:
                rc = pr.wait(timeout=1500)
            except subprocess.TimeoutExpired:
                rc = 'TIMEOUT'
                os.killpg(pr.pid, 15)  # only this run's process group (never other checks running on the machine)
                pr.wait()
        out = open(log).read()
        m = re.findall(r'paths=(\d+)', out)
        notes = [l[:160] for l in out.splitlines() if l.startswith(('VIOLATION', 'INCONCLUSIVE', 'UNCONFIRMED', 'ENCODER'))]
        print('%s %-40s rc=%s wall=%.0fs paths=%s %s' % (pid, u['name'], rc, time.time() - t0, m[-1] if m else '?', ' | '.join(notes[:3])), flush=True)
