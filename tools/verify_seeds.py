#!/usr/bin/env python3
"""Confirms each incoming seed in a scratch worktree of /repo's HEAD:
   patch applies and compiles, the demonstration FAILS with it and PASSES without it,
   the existing tests of the touched packages pass with it.  Writes /verif/seeded/<id>-<sub>/."""
import json, os, shutil, subprocess, sys, time
sys.path.insert(0, os.path.dirname(__file__))
from seed_table import SEEDS
ENV = dict(os.environ, GOFLAGS="-mod=mod", GOPROXY="off", GOSUMDB="off", GOTOOLCHAIN="local")
WT = "/tmp/seedverify"
def sh(cmd, cwd, timeout=1500):
    p = subprocess.run(cmd, shell=True, cwd=cwd, env=ENV, stdout=subprocess.PIPE, stderr=subprocess.STDOUT, timeout=timeout)
    return p.returncode, p.stdout.decode(errors="replace")
only = set(sys.argv[1:])
subprocess.run("git -C /repo worktree remove --force %s 2>/dev/null; git -C /repo worktree add -q --detach %s HEAD" % (WT, WT), shell=True)
head = subprocess.check_output("git -C /repo rev-parse --short HEAD", shell=True).decode().strip()
results = {}
for (pid, sub), s in sorted(SEEDS.items()):
    key = "%s-%s" % (pid, sub)
    if only and key not in only and pid not in only:
        continue
    src = "/verif/seeded_incoming/%s/%s" % (pid, sub)
    out = "/verif/seeded/%s" % key
    os.makedirs(out, exist_ok=True)
    meta = {"property": pid, "seed": sub, "repo_head": head, "ran": []}
    def put_demos():
        for f, d in s["demos"]:
            shutil.copy(os.path.join(src, f), os.path.join(WT, d, f))
    def rm_demos():
        for f, d in s["demos"]:
            try: os.remove(os.path.join(WT, d, f))
            except FileNotFoundError: pass
    sh("git checkout -q -- . && git clean -fdq", WT)
    rc, o = sh("git apply %s/patch.diff" % src, WT)
    meta["patch_applies"] = rc == 0
    if rc != 0:
        meta["error"] = o[-2000:]
        json.dump(meta, open(out + "/meta.json", "w"), indent=1); results[key] = meta; print(key, "PATCH DOES NOT APPLY"); continue
    moddir = os.path.join(WT, s["mod"])
    demo_cmd = "timeout 900 go test -count=1 -run '%s' %s" % (s["run"], s["pkg"])
    put_demos()
    rc, o = sh(demo_cmd, moddir)
    meta["demo_fails_with_change"] = rc != 0 and ("FAIL" in o)
    meta["ran"].append({"cmd": "cd %s && %s   # with the change" % (s["mod"], demo_cmd), "rc": rc, "tail": o[-1200:]})
    rm_demos()
    ok = True
    for pat in s.get("existing", []):
        c = "timeout 1400 go test -count=1 %s" % pat
        rc, o = sh(c, moddir)
        ok = ok and rc == 0
        meta["ran"].append({"cmd": "cd %s && %s   # existing tests, with the change" % (s["mod"], c), "rc": rc, "tail": o[-600:]})
    for m2, pat in s.get("existing_other", []):
        c = "timeout 1400 go test -count=1 %s" % pat
        rc, o = sh(c, os.path.join(WT, m2))
        ok = ok and rc == 0
        meta["ran"].append({"cmd": "cd %s && %s   # existing tests, with the change" % (m2, c), "rc": rc, "tail": o[-600:]})
    meta["existing_tests_pass_with_change"] = ok
    sh("git checkout -q -- . && git clean -fdq", WT)
    put_demos()
    rc, o = sh(demo_cmd, moddir)
    meta["demo_passes_without_change"] = rc == 0
    meta["ran"].append({"cmd": "cd %s && %s   # without the change" % (s["mod"], demo_cmd), "rc": rc, "tail": o[-600:]})
    rm_demos()
    sh("git checkout -q -- . && git clean -fdq", WT)
    meta["confirmed"] = bool(meta["demo_fails_with_change"] and meta["demo_passes_without_change"] and meta["existing_tests_pass_with_change"])
    shutil.copy(src + "/patch.diff", out + "/patch.diff")
    for f, d in s["demos"]:
        shutil.copy(os.path.join(src, f), os.path.join(out, f))
    if os.path.exists(src + "/notes.md"):
        shutil.copy(src + "/notes.md", out + "/notes.md")
    meta["demonstration"] = [{"file": f, "place_at": os.path.join(d, f)} for f, d in s["demos"]]
    json.dump(meta, open(out + "/meta.json", "w"), indent=1)
    results[key] = meta
    print(key, "confirmed" if meta["confirmed"] else "NOT CONFIRMED", {k: meta[k] for k in ("demo_fails_with_change", "existing_tests_pass_with_change", "demo_passes_without_change")}, flush=True)
subprocess.run("git -C /repo worktree remove --force %s" % WT, shell=True)
